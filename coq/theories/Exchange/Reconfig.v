(* Reconfiguration while a backtest runs: Exchange.set_symbol_precision and Exchange.set_pair_info are plain public
   methods that a strategy may call at any time, not only before the first order.  This layer puts the configuration
   into the state: an extended operation is either an exchange operation (Model.step under the configuration in force)
   or one of the two setters, which replace a table entry (basana/backtesting/config.py: dict assignment) and leave
   the exchange state alone.  Only definitions here; the theorems are in ReconfigProofs.v. *)
From Coq Require Import ZArith QArith List Bool PArith.
From Basana Require Import Num.DecQ Exchange.Model Exchange.Obs.
Import ListNotations.
Open Scope Q_scope.

Inductive xop :=
| XOp (o : op)
| XSymPrec (x : sym) (p : nat)                 (* Exchange.set_symbol_precision(x, p) *)
| XPairInfo (pr : pair) (bq : nat * nat)       (* Exchange.set_pair_info(pr, PairInfo(b, q)) *)
| XLend (l : lend_cfg)                         (* lending conditions changed (the conditions objects are mutable) *)
| XTick (w : Z).                               (* the dispatcher's clock moves to [w] without a bar: a scheduled job runs *)

(* lookups return the first match, so a new head entry is the dict assignment *)
Definition reconf (c : cfg) (x : xop) : cfg :=
  match x with
  | XOp _ => c
  | XSymPrec y p =>
    mkCfg ((y, p) :: c_sym_prec c) (c_pair_info c) (c_default_pair c) (c_fee c) (c_liq c) (c_lend c)
  | XPairInfo pr bq =>
    mkCfg (c_sym_prec c) ((pr, bq) :: c_pair_info c) (c_default_pair c) (c_fee c) (c_liq c) (c_lend c)
  | XLend l => mkCfg (c_sym_prec c) (c_pair_info c) (c_default_pair c) (c_fee c) (c_liq c) l
  | XTick _ => c
  end.

Definition xstep (cs : cfg * st) (x : xop) : (cfg * st) * reply :=
  match x with
  | XOp o => let '(s', r) := step (fst cs) (snd cs) o in ((fst cs, s'), r)
  | XTick w => ((fst cs, set_close_now (snd cs) (s_close (snd cs)) (Some w)), ROk)
  | _ => ((reconf (fst cs) x, snd cs), ROk)
  end.

Definition xrun (cs : cfg * st) (xs : list xop) : cfg * st := fold_left (fun cs x => fst (xstep cs x)) xs cs.

(* correspondence protocol, as Obs.check_ops: one checksum of (reply ++ observable state) per extended operation; the
   state is observed under the configuration in force after the operation *)
Fixpoint check_xops (syms : list sym) (cs : cfg * st) (k : nat) (xs : list xop) (expd : list Q) : verdict * (cfg * st) :=
  match xs, expd with
  | [], _ => (Agree, cs)
  | x :: r, e :: er =>
    let '(cs', rep) := xstep cs x in
    let m := checksum (obs_reply rep ++ obs_state (fst cs') (snd cs') syms) in
    if Qeq_bool m e then check_xops syms cs' (S k) r er else (Diverge k m, cs')
  | _ :: _, [] => (Diverge k (-1), cs)
  end.

Definition check_xcase (c : cfg) (syms : list sym) (initial : vmap) (xs : list xop) (expd : list Q) : verdict :=
  let n := length xs in
  match check_xops syms (c, init_st initial) 0 xs (firstn n expd) with
  | (Agree, cs) =>
    let m := checksum (flat_map obs_event (s_events (snd cs))) in
    match skipn n expd with
    | [e] => if Qeq_bool m e then Agree else Diverge n m
    | _ => Diverge n (-2)
    end
  | (d, _) => d
  end.

Definition trace_xcase (c : cfg) (syms : list sym) (initial : vmap) (xs : list xop) (k : nat) : list Q :=
  if Nat.leb (length xs) k then flat_map obs_event (s_events (snd (xrun (c, init_st initial) xs)))
  else
    let cs := xrun (c, init_st initial) (firstn k xs) in
    match nth_error xs k with
    | Some x => let '(cs', rep) := xstep cs x in obs_reply rep ++ obs_state (fst cs') (snd cs') syms
    | None => []
    end.
