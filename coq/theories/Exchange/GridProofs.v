(* C08, whole history: every fill recorded on an order -- base amount, quote amount and fee -- is a multiple of the
   precision configured for the order's pair, the cumulative amounts of an order are the sums of its fills, and hence
   the filled amount, the traded quote amount and the fees of every order in every reachable state are on the grid.
   Obtained with the pass of FillTimes.v (what an operation may add to the orders), instantiated with the grid facts
   that the rounding of a fill (round_bu) and of its fee (calc_fee) establish. *)
From Coq Require Import ZArith QArith Qround Lia Lqa List Bool PArith.
From Basana Require Import Num.DecQ Num.DecQProofs Exchange.Model Exchange.AcctProofs Exchange.StepProofs
  Exchange.OpProofs Exchange.Prims Exchange.FillBounds Exchange.Structure Exchange.FillTimes.
Import ListNotations.
Open Scope Q_scope.

(* a fill on the grid of the pair [pr] under configuration [c] *)
Definition GF (c : cfg) (pr : pair) (f : fill) : Prop :=
  exists pi, get_pair_info c pr = Ok pi /\
    on_grid (fst pi) (f_base f) /\ on_grid (snd pi) (f_quote f) /\ on_grid (snd pi) (f_fee f).

(* the record of an order: its fills are on the grid and its cumulative amounts are their sums *)
Definition GO (c : cfg) (o : order) : Prop :=
  Forall (GF c (o_pair o)) (o_fills o) /\
  o_fb o == fsum f_base (o_fills o) /\ o_fq o == fsum f_quote (o_fills o) /\ o_fee o == fsum f_fee (o_fills o).

Definition GI (c : cfg) (s : st) : Prop := forall i o, nth_error (s_orders s) i = Some o -> GO c o.

Lemma GO_grew c J o0 o : GO c o0 -> grew (GF c) J o0 o -> GO c o.
Proof.
  intros (F0 & Sb0 & Sq0 & Sf0) (Epr & (fs & Ef & Hp & Sb & Sq & Sf) & _). unfold GO. rewrite Ef, Epr, !fsum_app.
  split; [apply Forall_app; split; assumption|]. split; [|split]; lra.
Qed.

Lemma GO_fresh c o : fresh o -> GO c o.
Proof.
  intros (Ef & Eb & Eq & Ee). unfold GO. rewrite Ef, Eb, Eq, Ee. unfold fsum; cbn [fold_right].
  split; [constructor|]. split; [|split]; lra.
Qed.

Lemma GI_step c s o : cfg_ok c -> op_ok o -> WF s -> GI c s -> GI c (fst (step c s o)).
Proof.
  intros Hc Ho Hw Hi.
  assert (S1 : ST (GF c) (fun _ => True) c s (fst (step c s o))).
  { apply step_ST; try assumption; auto.
    - intros p w b _ pr pi bq qq fq Epi Gb Gq Gf. exists pi. cbn [f_base f_quote f_fee]. auto.
    - intros p w b _ l x _ _ _ hit pi bv0 qv0 bv qv fee _ _ _ _ _. exact I. }
  destruct S1 as [Sa Sb]. intros i x Hx.
  destruct (nth_error (s_orders s) i) as [o0|] eqn:E0.
  - destruct (Sa i o0 E0) as (o1 & E1 & Hg). rewrite E1 in Hx. inversion Hx; subst o1.
    exact (GO_grew c _ o0 x (Hi i o0 E0) Hg).
  - apply nth_error_None in E0. apply GO_fresh. exact (proj1 (Sb i x Hx E0)).
Qed.

Theorem run_GI c ops : forall s, cfg_ok c -> ops_ok ops -> WF s -> GI c s -> GI c (run c s ops).
Proof.
  unfold run. induction ops as [|op r IH]; intros s Hc Ho Hw Hi; cbn [fold_left]; [exact Hi|].
  inversion Ho as [|? ? Ho1 Hor]; subst.
  apply IH; try assumption.
  - exact (proj1 (step_prims c s op Hc Ho1 Hw)).
  - apply GI_step; assumption.
Qed.

Lemma GI_init c initial : GI c (init_st initial).
Proof. intros i o Hi. destruct i; discriminate Hi. Qed.

Lemma fsum_on_grid c pr pi g (sel : nat * nat -> nat) fs :
  get_pair_info c pr = Ok pi ->
  (forall f, GF c pr f -> on_grid (sel pi) (g f)) -> Forall (GF c pr) fs -> on_grid (sel pi) (fsum g fs).
Proof.
  intros Epi Hg. induction 1 as [|f r Hf Hr IH]; [apply on_grid_zero|].
  change (on_grid (sel pi) (g f + fsum g r)). apply on_grid_plus; [apply Hg; exact Hf | exact IH].
Qed.

Lemma on_grid_Qabsq p x : on_grid p x -> on_grid p (Qabsq x).
Proof. intros H. unfold Qabsq. destruct (Qle_bool 0 x); [exact H | apply on_grid_opp; exact H]. Qed.

(* every order of every reachable state: filled amount on the base grid, traded quote amount and fees on the quote grid *)
Theorem order_amounts_on_grid c initial ops i o bp qp :
  cfg_ok c -> ops_ok ops ->
  nth_error (s_orders (run c (init_st initial) ops)) i = Some o ->
  get_pair_info c (o_pair o) = Ok (bp, qp) ->
  on_grid bp (filled o) /\ on_grid qp (qfilled o) /\ on_grid qp (o_fee o) /\
  Forall (fun f => on_grid bp (f_base f) /\ on_grid qp (f_quote f) /\ on_grid qp (f_fee f)) (o_fills o).
Proof.
  intros Hc Ho Hn Epi.
  destruct (run_GI c ops (init_st initial) Hc Ho (WF_init initial) (GI_init c initial) i o Hn) as (F & Sb & Sq & Sf).
  assert (X : forall f, GF c (o_pair o) f -> on_grid bp (f_base f) /\ on_grid qp (f_quote f) /\ on_grid qp (f_fee f)).
  { intros f (pi & E & A & B & C). rewrite Epi in E. inversion E; subst pi. cbn [fst snd] in *. auto. }
  split; [|split; [|split]].
  - unfold filled. apply on_grid_Qabsq. rewrite Sb.
    apply (fsum_on_grid c (o_pair o) (bp, qp) f_base fst (o_fills o) Epi); [intros f Hf; apply (X f Hf) | exact F].
  - unfold qfilled. apply on_grid_Qabsq. rewrite Sq.
    apply (fsum_on_grid c (o_pair o) (bp, qp) f_quote snd (o_fills o) Epi); [intros f Hf; apply (X f Hf) | exact F].
  - rewrite Sf.
    apply (fsum_on_grid c (o_pair o) (bp, qp) f_fee snd (o_fills o) Epi); [intros f Hf; apply (X f Hf) | exact F].
  - eapply Forall_impl; [|exact F]. exact X.
Qed.

(* the cumulative amounts are the sums of the recorded fills (what an order reports is what its fills add up to) *)
Theorem order_amounts_are_fill_sums c initial ops i o :
  cfg_ok c -> ops_ok ops ->
  nth_error (s_orders (run c (init_st initial) ops)) i = Some o ->
  o_fb o == fsum f_base (o_fills o) /\ o_fq o == fsum f_quote (o_fills o) /\ o_fee o == fsum f_fee (o_fills o).
Proof.
  intros Hc Ho Hn.
  destruct (run_GI c ops (init_st initial) Hc Ho (WF_init initial) (GI_init c initial) i o Hn) as (_ & S).
  exact S.
Qed.
