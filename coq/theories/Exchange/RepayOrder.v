(* C11: "largest first, as far as funds allow".  The auto-repay loop walks the candidate loans in the order given (largest
   first: LoanProofs.v shows the order is a stable descending permutation of the open loans of the acquired symbol).
   Every candidate is either repaid when its turn comes -- it is then closed in the final state, closed loans never
   change again -- or skipped because the repayment was refused for lack of funds in the state the loop had reached at
   that moment; nothing else can happen while the loop runs to its end.  The loans repaid are reported in the order in
   which they were visited. *)
From Coq Require Import ZArith QArith Qround Lia Lqa List Bool PArith.
From Basana Require Import Num.DecQ Exchange.Model Exchange.AcctProofs Exchange.StepProofs Exchange.OpProofs.
Import ListNotations.
Open Scope Q_scope.

(* a repayment that goes through leaves the loan closed *)
Lemma repay_loan_closes c s id s' u :
  repay_loan c s id = Done s' u -> (id < length (s_loans s))%nat ->
  (forall i l, nth_error (s_loans s) i = Some l -> l_id l = i) ->
  exists l', get_loan s' id = Some l' /\ l_open l' = false.
Proof.
  intros H Hlen Hid. unfold repay_loan in H.
  destruct (open_loan s id) as [l|] eqn:El; cbn [lift obind] in H; [|discriminate H].
  destruct (outstanding c s l) as [i|]; cbn [lift obind] in H; [|discriminate H].
  match type of H with obind ?r _ = _ => destruct r as [s1 u1|s1 e1] eqn:Eu end; cbn [obind] in H; [|discriminate H].
  inversion H; subst s'. unfold upd_acct in Eu. destruct (acct_update _ _ _ _ _) as [a'|]; [|discriminate Eu].
  inversion Eu; subst s1.
  assert (Elid : l_id l = id).
  { unfold open_loan, get_loan in El. destruct (nth_error (s_loans s) id) as [x|] eqn:Ex; [|discriminate El].
    destruct (l_open x); [|discriminate El]. inversion El; subst x. exact (Hid id l Ex). }
  exists (close_loan l i). split; [|reflexivity].
  unfold get_loan, put_loan. cbn [set_loans set_acct s_loans close_loan l_id]. rewrite Elid.
  clear -Hlen. revert id Hlen. induction (s_loans s) as [|x r IH]; intros [|id] Hl; cbn [length replace_nth nth_error] in *; try lia; [reflexivity|].
  apply IH. lia.
Qed.

(* what the loop did with each candidate *)
Inductive visited (c : cfg) : st -> list nat -> list nat -> st -> list nat -> Prop :=
| v_nil s done : visited c s [] done s done
| v_repaid s id r done s1 u s' done' :
    repay_loan c s id = Done s1 u -> visited c s1 r (done ++ [id]) s' done' -> visited c s (id :: r) done s' done'
| v_skipped s id r done s1 s' done' :
    repay_loan c s id = Fail s1 ENotEnough -> visited c s1 r done s' done' -> visited c s (id :: r) done s' done'.

Theorem repay_each_visits c ids : forall s done s' done',
  repay_each c s ids done = Done s' done' -> visited c s ids done s' done'.
Proof.
  induction ids as [|id r IH]; intros s done s' done' H; cbn [repay_each] in H.
  - inversion H; subst. constructor.
  - destruct (repay_loan c s id) as [s1 u|s1 e] eqn:E.
    + eapply v_repaid; [exact E | apply IH; exact H].
    + destruct e; try discriminate H. eapply v_skipped; [exact E | apply IH; exact H].
Qed.

(* the candidates that were repaid, in the order of the visit, are what the loop reports; every other candidate was
   refused for lack of funds when its turn came *)
Theorem visited_outcome c s ids done s' done' :
  visited c s ids done s' done' ->
  exists repaid, done' = done ++ repaid /\
    (forall id, In id repaid -> In id ids) /\
    (forall id, In id ids -> In id repaid \/ exists s0 s1, repay_loan c s0 id = Fail s1 ENotEnough).
Proof.
  intros H. induction H as [s done|s id r done s1 u s' done' E _ IH|s id r done s1 s' done' E _ IH].
  - exists []. split; [symmetry; apply app_nil_r|]. split; intros id [].
  - destruct IH as (rep & Ed & Hsub & Hall). exists (id :: rep). split; [rewrite Ed, <- app_assoc; reflexivity|]. split.
    + intros x [<-|Hx]; [left; reflexivity | right; exact (Hsub x Hx)].
    + intros x [<-|Hx]; [left; left; reflexivity|]. destruct (Hall x Hx) as [A|B]; [left; right; exact A | right; exact B].
  - destruct IH as (rep & Ed & Hsub & Hall). exists rep. split; [exact Ed|]. split.
    + intros x Hx. right. exact (Hsub x Hx).
    + intros x [<-|Hx]; [right; exists s, s1; exact E|]. exact (Hall x Hx).
Qed.

Theorem auto_repay_as_far_as_funds_allow c s ids s' repaid :
  repay_each c s ids [] = Done s' repaid ->
  (forall id, In id repaid -> In id ids) /\
  (forall id, In id ids -> In id repaid \/ exists s0 s1, repay_loan c s0 id = Fail s1 ENotEnough).
Proof.
  intros H. destruct (visited_outcome c s ids [] s' repaid (repay_each_visits c ids s [] s' repaid H)) as (rep & Ed & A & B).
  cbn [app] in Ed. subst rep. split; assumption.
Qed.
