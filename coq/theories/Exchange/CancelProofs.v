(* C07 / C05 / C06: cancelling an open order.  In every reachable state the reservations recorded for orders are
   value maps without duplicate keys and with non-negative entries, each of them is covered by what the account has on
   hold, and therefore releasing the holds of an order that closes passes every rule: the cancellation of an open order
   that does not auto-repay (or has not traded) cannot fail; the one of an auto-repay order that traded fails, if at all,
   in the up-front pricing of the open loans -- before anything is changed -- or later in the repayment itself. *)
From Coq Require Import ZArith QArith Qround Lia Lqa List Bool PArith.
From Basana Require Import Num.DecQ Num.DecQProofs Exchange.Model Exchange.AcctProofs Exchange.StepProofs
  Exchange.OpProofs Exchange.OrderProofs Exchange.HoldProofs Exchange.Prims Exchange.FillBounds Exchange.Structure Exchange.LedgerProofs
  Exchange.AtomicProofs.
Import ListNotations.
Open Scope Q_scope.

(* ---------------------------------------------------------------------------------------------- *)
(* invariants *)
Definition PD (s : st) : Prop :=
  forall i o, nth_error (s_orders s) i = Some o -> fst (o_pair o) <> snd (o_pair o).
Definition res_ok (m : vmap) : Prop := vnodup m /\ forall kv, In kv m -> 0 <= snd kv.
Definition RN (s : st) : Prop := forall k m, In (k, m) (s_holds s) -> res_ok m.

Lemma holds_set_in2 h id v k m : In (k, m) (holds_set h id v) -> m = v \/ In (k, m) h.
Proof.
  induction h as [|[k0 v0] r IH]; cbn [holds_set].
  - intros [H|[]]. inversion H. left; reflexivity.
  - destruct (Nat.eqb k0 id).
    + intros [H|H]; [inversion H; left; reflexivity | right; right; exact H].
    + intros [H|H]; [right; left; exact H | destruct (IH H) as [->|H']; [left; reflexivity | right; right; exact H']].
Qed.

Lemma holds_get_in h id : vnonempty (holds_get h id) = true -> In (id, holds_get h id) h.
Proof.
  induction h as [|[k0 v0] r IH]; cbn [holds_get]; [discriminate|].
  destruct (Nat.eqb k0 id) eqn:E; intros H.
  - apply Nat.eqb_eq in E. subst. left; reflexivity.
  - right. apply IH. exact H.
Qed.

Lemma req_form_res_ok p req : fst p <> snd p -> req_form p req -> res_ok req.
Proof.
  intros Hne (rb & rq & -> & [->|(v & Hv & ->)] & [->|(w & Hw & ->)]); unfold res_ok, vnodup; cbn [app vkeys map fst].
  - split; [constructor | intros kv []].
  - split; [constructor; [intros []|constructor] | intros kv [<-|[]]; cbn [snd]; lra].
  - split; [constructor; [intros []|constructor] | intros kv [<-|[]]; cbn [snd]; lra].
  - split.
    + constructor; [intros [E|[]]; apply Hne; symmetry; exact E | constructor; [intros [] | constructor]].
    + intros kv [<-|[<-|[]]]; cbn [snd]; lra.
Qed.

Lemma res_ok_get m k : res_ok m -> 0 <= vget m k.
Proof.
  intros [_ Hp]. destruct (vget_in_or_zero m k) as [E|Hin]; [rewrite E; lra | apply (Hp _ Hin)].
Qed.

(* entries of a map without duplicate keys are its values *)
Lemma res_ok_of_values m : vnodup m -> (forall k, 0 <= vget m k) -> res_ok m.
Proof.
  intros Hn Hv. split; [exact Hn|]. intros [k v] Hin. cbn [snd]. rewrite <- (vnodup_get _ _ _ Hn Hin). apply Hv.
Qed.

(* the hold updates of a fill never take more than the reservation has *)
Definition hu_of (oh bu : vmap) : vmap :=
  flat_map (fun kv : sym * Q => if Qltb (snd kv) 0 && existsb (Pos.eqb (fst kv)) (vkeys oh)
                                then [(fst kv, Qmaxq (snd kv) (- vget oh (fst kv)))] else []) bu.

Lemma hu_of_absent oh bu k : ~ In k (vkeys bu) -> vsum (hu_of oh bu) k == 0.
Proof.
  induction bu as [|[y w] r IH]; cbn [hu_of flat_map vsum vkeys map fst snd]; intros Hn; [reflexivity|].
  fold (hu_of oh r). fold (vkeys r) in Hn.
  assert (Hy : y <> k) by (intros ->; apply Hn; left; reflexivity).
  assert (Hr : ~ In k (vkeys r)) by (intros Hin; apply Hn; right; exact Hin).
  specialize (IH Hr).
  destruct (Qltb w 0 && existsb (Pos.eqb y) (vkeys oh)); cbn [fst snd app vsum].
  - destruct (Pos.eqb y k) eqn:E; [apply Pos.eqb_eq in E; contradiction | lra].
  - exact IH.
Qed.

Lemma hu_of_ge oh bu k : res_ok oh -> vnodup bu -> - vget oh k <= vsum (hu_of oh bu) k.
Proof.
  intros Hr Hn. pose proof (res_ok_get oh k Hr) as Hk.
  induction bu as [|[x v] r IH]; cbn [hu_of flat_map vsum fst snd]; [lra|].
  fold (hu_of oh r).
  unfold vnodup in Hn. cbn [vkeys map fst] in Hn. fold (vkeys r) in Hn. inversion Hn as [|? ? Hx Hr']; subst.
  specialize (IH Hr').
  destruct (Qltb v 0 && existsb (Pos.eqb x) (vkeys oh)); cbn [fst snd app vsum]; [|exact IH].
  destruct (Pos.eqb x k) eqn:Exk; [|lra].
  apply Pos.eqb_eq in Exk. subst x. rewrite (hu_of_absent oh r k Hx).
  pose proof (Qmaxq_ge_r v (- vget oh k)). lra.
Qed.

Lemma hold_updates_open_ge o oh bu k :
  is_open o = true -> vnonempty oh = true -> res_ok oh -> vnodup bu ->
  - vget oh k <= vsum (hold_updates o oh bu) k.
Proof.
  intros Ho Hne Hr Hn. unfold hold_updates. rewrite Hne, Ho. apply (hu_of_ge oh bu k Hr Hn).
Qed.

Lemma fill_updates_nodup o bv qv feev : fst (o_pair o) <> snd (o_pair o) -> vnodup (fill_updates o bv qv feev).
Proof.
  intros Hne. unfold fill_updates, vnodup. destruct (Qzero (qv + feev)); cbn [app vkeys map fst].
  - constructor; [intros [] | constructor].
  - constructor; [intros [E|[]]; apply Hne; symmetry; exact E | constructor; [intros [] | constructor]].
Qed.

Lemma RN_update_balances c s o bu s' u :
  RN s -> vnodup bu -> update_balances c s o bu = Done s' u -> RN s'.
Proof.
  intros Hr Hn H. destruct (update_balances_acct _ _ _ _ _ _ H) as [_ Eh]. cbn zeta in Eh.
  intros k m Hin. rewrite Eh in Hin.
  destruct (vnonempty (holds_get (s_holds s) (o_id o))) eqn:Ene; [|apply (Hr _ _ Hin)].
  pose proof (Hr _ _ (holds_get_in _ _ Ene)) as Roh.
  destruct (is_open o) eqn:Eo.
  - apply holds_set_in2 in Hin. destruct Hin as [->|Hin]; [|apply (Hr _ _ Hin)].
    apply res_ok_of_values; [apply vnodup_vadd; apply Roh|].
    intros x. rewrite vget_vadd. pose proof (hold_updates_open_ge o _ bu x Eo Ene Roh Hn).
    pose proof (res_ok_get _ x Roh). lra.
  - apply holds_del_in in Hin. apply (Hr _ _ Hin).
Qed.

Lemma PD_RN_prim c s s' : WF s -> PD s /\ RN s -> prim c s s' -> PD s' /\ RN s'.
Proof.
  intros Hw [Hp Hr] H. destruct H.
  - destruct H as (_ & Eo & Eh & _). unfold PD, RN. rewrite Eo, Eh. split; assumption.
  - split; [|exact Hr]. intros i o. unfold put_order. cbn [set_orders s_orders]. rewrite nth_error_replace_nth.
    destruct (Nat.eqb i (o_id o')) eqn:E; [|apply Hp].
    destruct (nth_error (s_orders s) i); [|discriminate]. intros X; inversion X; subst.
    destruct H0 as (_ & Epair & _). rewrite <- Epair. apply (Hp _ _ H).
  - assert (E1 : s_holds s1 = s_holds s).
    { destruct (vnonempty req); [apply upd_acct_done in H; destruct H as (a' & _ & ->); reflexivity | inversion H; reflexivity]. }
    split.
    + intros i o. cbn [set_orders s_orders]. rewrite nth_error_snoc. destruct (Nat.eqb i (length (s_orders s))).
      * intros X; inversion X; subst. exact H5.
      * apply Hp.
    + intros k m. destruct (vnonempty req); cbn [set_orders set_holds s_holds]; rewrite ?E1; intros Hin.
      * apply holds_set_in2 in Hin. destruct Hin as [->|Hin]; [eapply req_form_res_ok; eauto | apply (Hr _ _ Hin)].
      * apply (Hr _ _ Hin).
  - apply create_loan_shape in H. destruct H as (a' & t & k & _ & _ & ->). split; assumption.
  - apply repay_loan_shape in H. destruct H as (l & i & a' & _ & _ & _ & ->). split; assumption.
  - apply cancel_loan_shape in H. destruct H as (l & a' & _ & _ & ->). split; assumption.
  - destruct (update_balances_orders _ _ _ _ _ _ H) as [Eo _]. split.
    + unfold PD. rewrite Eo. exact Hp.
    + eapply (RN_update_balances c s o []); [exact Hr | unfold vnodup; cbn; constructor | exact H].
  - destruct (update_balances_orders _ _ _ _ _ _ H0) as [Eo _].
    assert (Hpo : fst (o_pair o) <> snd (o_pair o)) by (apply (Hp _ _ H)).
    split.
    + intros i x. unfold put_order. cbn [set_orders s_orders]. rewrite nth_error_replace_nth, Eo.
      destruct (Nat.eqb i (o_id (add_fill o w bv qv feev))) eqn:E; [|apply Hp].
      destruct (nth_error (s_orders s) i); [|discriminate]. intros X; inversion X; subst. exact Hpo.
    + unfold put_order, RN. cbn [set_orders s_holds].
      eapply RN_update_balances; [exact Hr | apply fill_updates_nodup; exact Hpo | exact H0].
Qed.

Lemma PD_RN_prims c s s' : WF s -> PD s /\ RN s -> prims c s s' -> PD s' /\ RN s'.
Proof.
  intros Hw Hi Hp. induction Hp as [|s1 s2 s3 H12 IH H23]; [exact Hi|].
  eapply PD_RN_prim; [eapply WF_prims; eauto | apply IH; assumption | exact H23].
Qed.

(* ---------------------------------------------------------------------------------------------- *)
(* releasing the holds of an order passes every rule *)
Lemma vsum_nodup m k : vnodup m -> vsum m k == vget m k.
Proof.
  unfold vnodup. induction m as [|[k0 v0] r IH]; cbn [vkeys map fst vsum vget]; intros H; [reflexivity|].
  inversion H as [|? ? Hk Hr]; subst. destruct (Pos.eqb k0 k) eqn:E.
  - apply Pos.eqb_eq in E. subst k0.
    assert (Z0 : vsum r k == 0).
    { clear IH H Hr. induction r as [|[k1 v1] r2 IH2]; cbn [vsum]; [reflexivity|].
      destruct (Pos.eqb k1 k) eqn:E1.
      - apply Pos.eqb_eq in E1. subst. exfalso. apply Hk. left; reflexivity.
      - rewrite IH2; [lra|]. intros Hin. apply Hk. right; exact Hin. }
    rewrite Z0. lra.
  - rewrite (IH Hr). lra.
Qed.

Lemma res_ok_vsum m x : res_ok m -> 0 <= vsum m x.
Proof. intros Hr. rewrite (vsum_nodup m x (proj1 Hr)). apply res_ok_get. exact Hr. Qed.

Lemma hsum_ge_entry h id x :
  (forall k m, In (k, m) h -> res_ok m) -> vnonempty (holds_get h id) = true ->
  vsum (holds_get h id) x <= qsum (hcontrib x) h.
Proof.
  induction h as [|[k0 v0] r IH]; cbn [holds_get qsum]; intros Hr Hne; [discriminate Hne|].
  unfold hcontrib at 1. cbn [snd].
  assert (H0 : 0 <= vsum v0 x) by (apply res_ok_vsum; apply (Hr k0 v0); left; reflexivity).
  assert (Hrest : 0 <= qsum (hcontrib x) r).
  { clear IH Hne. induction r as [|[k1 v1] r2 IH2]; cbn [qsum]; [lra|]. unfold hcontrib at 1. cbn [snd].
    assert (0 <= vsum v1 x) by (apply res_ok_vsum; apply (Hr k1 v1); right; left; reflexivity).
    assert (0 <= qsum (hcontrib x) r2); [|lra].
    apply IH2. intros k m Hin. apply (Hr k m). destruct Hin as [E|Hin]; [left; exact E | right; right; exact Hin]. }
  destruct (Nat.eqb k0 id); [lra|].
  assert (X : vsum (holds_get r id) x <= qsum (hcontrib x) r).
  { apply IH; [intros k m Hin; apply (Hr k m); right; exact Hin | exact Hne]. }
  lra.
Qed.

Lemma anyneg_of_values m : vnodup m -> (forall k, 0 <= vget m k) -> anyneg m = false.
Proof.
  intros Hn Hv. unfold anyneg. destruct (existsb _ m) eqn:E; [|reflexivity]. exfalso.
  apply existsb_exists in E. destruct E as ([k v] & Hin & Hlt). cbn [snd] in Hlt. apply Qltb_true in Hlt.
  specialize (Hv k). rewrite (vnodup_get _ _ _ Hn Hin) in Hv. lra.
Qed.

Lemma release_update_ok c s a oh :
  rules_pass a -> vnodup (hold a) -> vnodup (bor a) ->
  (forall x, 0 <= vsum oh x) -> (forall x, vsum oh x <= vget (hold a) x) ->
  exists a', acct_update (margin_rule c s) a [] (vneg oh) [] = Ok a'.
Proof.
  intros Hr Hnh Hnb Hpos Hcov. pose proof Hr as [Hnz Hvh]. pose proof (rules_good a Hnz Hvh) as Hg.
  unfold acct_update. rewrite !vadd_nil.
  unfold nonzero_rule in Hnz.
  destruct (anyneg (bal a)) eqn:A1; [discriminate|]. destruct (anyneg (hold a)) eqn:A2; [discriminate|].
  destruct (anyneg (bor a)) eqn:A3; [discriminate|].
  assert (Hval : forall k, vget (vadd (hold a) (vneg oh)) k == vget (hold a) k - vsum oh k).
  { intros k. rewrite vget_vadd, vsum_vneg. lra. }
  assert (N2 : anyneg (vadd (hold a) (vneg oh)) = false).
  { apply anyneg_of_values; [apply vnodup_vadd; exact Hnh|]. intros k. rewrite Hval. specialize (Hcov k). lra. }
  unfold nonzero_rule. cbn [bal hold bor]. rewrite A1, N2, A3.
  assert (V : validhold_rule (mkAcct (bal a) (vadd (hold a) (vneg oh)) (bor a)) = None).
  { unfold validhold_rule. cbn [bal hold]. destruct (existsb _ _) eqn:Ex; [|reflexivity].
    exfalso. apply existsb_exists in Ex. destruct Ex as (k & _ & Hk). apply Qltb_true in Hk.
    rewrite Hval in Hk. destruct (Hg k) as (_ & Hle & _). specialize (Hpos k). lra. }
  rewrite V. rewrite (margin_rule_hold c s a _ Hnb); [eexists; reflexivity | reflexivity].
Qed.

(* ---------------------------------------------------------------------------------------------- *)
(* the invariants a state needs *)
Definition cancel_inv (s : st) : Prop :=
  WF s /\ RI (s_acct s) /\ holds_inv s /\ RN s.

(* cancelling an open order that does not auto-repay, or has not traded, cannot fail *)
Theorem cancel_plain_order_succeeds c s id o :
  cancel_inv s -> get_order s id = Some o -> is_open o = true ->
  o_ar o && negb (Qzero (filled o)) = false ->
  exists s', cancel_order c s id = Done s' tt.
Proof.
  intros (Hw & (Hr & _ & Hnh & Hnb) & Hh & Hrn) Hg Ho Har.
  unfold cancel_order. rewrite Hg, Ho. cbn [negb]. rewrite Har. cbn [lift obind].
  set (o1 := with_state o SCanceled). unfold order_closed.
  assert (Eid : o_id o = id) by (destruct Hw as (Hw1 & _); destruct (Hw1 _ _ Hg); assumption).
  assert (Ub : exists s2, update_balances c (put_order s o1) o1 [] = Done s2 tt).
  { unfold update_balances.
    assert (Eh : holds_get (s_holds (put_order s o1)) (o_id o1) = holds_get (s_holds s) id) by (rewrite <- Eid; reflexivity).
    rewrite Eh. change (is_open o1) with false. set (oh := holds_get (s_holds s) id).
    destruct (vnonempty oh) eqn:Ene; cbn [vnonempty orb].
    - assert (Ev : vnonempty (vneg oh) = true) by (destruct oh; [discriminate Ene | reflexivity]).
      rewrite Ev. unfold upd_acct.
      destruct (release_update_ok c (put_order s o1) (s_acct s) oh Hr Hnh Hnb) as [a' Ea].
      + intros x. apply res_ok_vsum. apply (Hrn id oh). apply holds_get_in. exact Ene.
      + intros x. rewrite (Hh x). unfold hsum. apply hsum_ge_entry; [exact Hrn | exact Ene].
      + change (s_acct (put_order s o1)) with (s_acct s). rewrite Ea. cbn [obind]. eexists. reflexivity.
    - cbn [obind]. eexists. reflexivity. }
  destruct Ub as [s2 E2]. rewrite E2. cbn [obind].
  change (o_ar o1) with (o_ar o). change (filled o1) with (filled o). rewrite Har. cbn [obind].
  eexists. reflexivity.
Qed.

(* the invariants hold in every reachable state *)
Theorem reachable_cancel_inv c initial ops :
  cfg_ok c -> ops_ok ops -> NoDup (map fst initial) -> (forall kv, In kv initial -> 0 <= snd kv) ->
  cancel_inv (run c (init_st initial) ops).
Proof.
  intros Hc Ho Hnd Hpos.
  destruct (run_invariants c _ ops (init_st initial) Hc Ho (WF_init initial) (init_all_inv initial Hpos)) as [W (_ & _ & Hh)].
  destruct (run_prims c ops (init_st initial) Hc Ho (WF_init initial)) as (_ & P & _).
  assert (I0 : PD (init_st initial) /\ RN (init_st initial)).
  { split; [intros [|i] o X; discriminate X | intros k m []]. }
  destruct (PD_RN_prims c _ _ (WF_init initial) I0 P) as [_ Hrn].
  split; [exact W|]. split; [apply reachable_RI; apply init_RI; assumption|]. split; assumption.
Qed.

(* C07 / C05: in every reachable state, the cancellation of an open order that does not auto-repay (or has not traded)
   succeeds -- a cancellation request can only fail for an unknown or closed order, which changes nothing *)
Theorem cancel_reachable c initial ops id o :
  cfg_ok c -> ops_ok ops -> NoDup (map fst initial) -> (forall kv, In kv initial -> 0 <= snd kv) ->
  let s := run c (init_st initial) ops in
  get_order s id = Some o -> is_open o = true -> o_ar o && negb (Qzero (filled o)) = false ->
  exists s', cancel_order c s id = Done s' tt.
Proof.
  intros Hc Ho Hnd Hpos s Hg Hop Har.
  eapply cancel_plain_order_succeeds; eauto. apply reachable_cancel_inv; assumption.
Qed.

Theorem reachable_reservations_ok c initial ops k m :
  cfg_ok c -> ops_ok ops -> NoDup (map fst initial) -> (forall kv, In kv initial -> 0 <= snd kv) ->
  In (k, m) (s_holds (run c (init_st initial) ops)) -> vnodup m /\ forall kv, In kv m -> 0 <= snd kv.
Proof.
  intros Hc Ho Hnd Hpos Hin.
  destruct (reachable_cancel_inv c initial ops Hc Ho Hnd Hpos) as (_ & _ & _ & Hrn). exact (Hrn k m Hin).
Qed.
