(* C06: holds *)
From Coq Require Import ZArith QArith Qround Lia Lqa List Bool PArith.
From Basana Require Import Num.DecQ Exchange.Model Exchange.AcctProofs Exchange.StepProofs Exchange.OpProofs.
Import ListNotations.
Open Scope Q_scope.

Theorem reachable_hold_le_balance c initial ops x :
  (forall kv, In kv initial -> 0 <= snd kv) ->
  let a := s_acct (run c (init_st initial) ops) in 0 <= vget (hold a) x /\ vget (hold a) x <= vget (bal a) x.
Proof.
  intros H a. destruct (reachable_good c initial ops H x) as (H1 & H2 & _). split; assumption.
Qed.

Lemma vsum_vneg m x : vsum (vneg m) x == - vsum m x.
Proof.
  induction m as [|[k v] r IH]; cbn [vneg map vsum fst snd]; [lra|].
  fold (vneg r). rewrite IH. destruct (Pos.eqb k x); lra.
Qed.

Lemma anyneg_vset m x v : anyneg m = false -> 0 <= v -> anyneg (vset m x v) = false.
Proof.
  unfold anyneg. induction m as [|[k w] r IH]; cbn [vset existsb snd]; intros H Hv.
  - rewrite orb_false_r. unfold Qltb. apply negb_false_iff. apply Qle_bool_iff. exact Hv.
  - apply orb_false_iff in H. destruct H as [H1 H2]. destruct (Pos.eqb k x); cbn [existsb snd].
    + apply orb_false_iff. split; [|exact H2]. unfold Qltb. apply negb_false_iff. apply Qle_bool_iff. exact Hv.
    + apply orb_false_iff. split; [exact H1 | apply IH; assumption].
Qed.

Lemma anyneg_vadd m req :
  anyneg m = false -> (forall kv, In kv req -> 0 <= snd kv) -> anyneg (vadd m req) = false.
Proof.
  unfold vadd. revert m. induction req as [|[k v] r IH]; intros m Hm Hreq; cbn [fold_left fst snd]; [exact Hm|].
  apply IH.
  - unfold vaddk. apply anyneg_vset; [exact Hm|]. rewrite Qred_correct.
    pose proof (anyneg_false_nonneg m k Hm). pose proof (Hreq (k, v) (or_introl eq_refl)). cbn [snd] in *. lra.
  - intros kv Hin. apply Hreq. right. exact Hin.
Qed.

(* intensional form of "the rules hold on this account" (what a committed account satisfies) *)
Definition rules_pass (a : acct) : Prop := nonzero_rule a = None /\ validhold_rule a = None.

Lemma vadd_nil m : vadd m [] = m.
Proof. reflexivity. Qed.

Theorem hold_update_iff_covered_rules a req :
  rules_pass a -> (forall kv, In kv req -> 0 <= snd kv) ->
  ((exists a', acct_update (fun _ _ => None) a [] req [] = Ok a') <->
   (forall x, vget (hold a) x + vsum req x <= vget (bal a) x)).
Proof.
  intros [Hnz Hvh] Hreq. split.
  - intros [a' H] x. pose proof (acct_update_good _ _ _ _ _ _ H x) as (_ & Hle & _).
    destruct (acct_update_values _ _ _ _ _ _ H x) as (Hb & Hh & _). cbn [vsum] in Hb. lra.
  - intros Hcov. unfold acct_update. rewrite !vadd_nil.
    unfold nonzero_rule in Hnz.
    destruct (anyneg (bal a)) eqn:Eb; [discriminate|].
    destruct (anyneg (hold a)) eqn:Eh; [discriminate|].
    destruct (anyneg (bor a)) eqn:Eo; [discriminate|].
    assert (Eh' : anyneg (vadd (hold a) req) = false) by (apply anyneg_vadd; assumption).
    unfold nonzero_rule. cbn [bal hold bor]. rewrite Eb, Eh', Eo.
    unfold validhold_rule. cbn [bal hold].
    destruct (existsb _ _) eqn:Ex.
    + exfalso. apply existsb_exists in Ex. destruct Ex as (x & _ & Hx). apply Qltb_true in Hx.
      pose proof (vget_vadd (hold a) req x). specialize (Hcov x). lra.
    + eexists. reflexivity.
Qed.

Lemma rules_pass_of_update extra a db dh dbo a' : acct_update extra a db dh dbo = Ok a' -> rules_pass a'.
Proof.
  unfold acct_update. intros H.
  destruct (nonzero_rule _) eqn:E1; [discriminate|].
  destruct (validhold_rule _) eqn:E2; [discriminate|].
  destruct (extra _ _); [discriminate|]. inversion H; subst. split; assumption.
Qed.

(* stated for the accounts that exist: an account committed by AccountBalances.update *)
Theorem hold_update_iff_covered a req :
  acct_good a -> (forall kv, In kv req -> 0 <= snd kv) ->
  ((exists a', acct_update (fun _ _ => None) a [] req [] = Ok a') ->
   (forall x, vget (hold a) x + vsum req x <= vget (bal a) x)).
Proof.
  intros _ Hreq [a' H] x. pose proof (acct_update_good _ _ _ _ _ _ H x) as (_ & Hle & _).
  destruct (acct_update_values _ _ _ _ _ _ H x) as (Hb & Hh & _). cbn [vsum] in Hb. lra.
Qed.

Theorem closed_order_releases_holds c s o s' u x :
  is_open o = false ->
  update_balances c s o [] = Done s' u ->
  vget (hold (s_acct s')) x == vget (hold (s_acct s)) x - vsum (holds_get (s_holds s) (o_id o)) x /\
  s_holds s' = (if vnonempty (holds_get (s_holds s) (o_id o)) then holds_del (s_holds s) (o_id o) else s_holds s).
Proof.
  intros Hc H. unfold update_balances in H. rewrite Hc in H.
  destruct (vnonempty (holds_get (s_holds s) (o_id o))) eqn:En.
  - cbn [vnonempty orb] in H.
    assert (Ev : vnonempty (vneg (holds_get (s_holds s) (o_id o))) = true).
    { destruct (holds_get (s_holds s) (o_id o)); [discriminate En | reflexivity]. }
    rewrite Ev in H.
    destruct (upd_acct c s [] (vneg (holds_get (s_holds s) (o_id o))) []) as [s1 u1|] eqn:E; cbn [obind] in H;
      [|discriminate H].
    unfold upd_acct in E. destruct (acct_update _ _ _ _ _) as [a'|] eqn:Ea; [|discriminate E].
    inversion E; subst s1. inversion H; subst s'. cbn [set_holds set_acct s_acct s_holds]. split; [|reflexivity].
    destruct (acct_update_values _ _ _ _ _ _ Ea x) as (_ & Hh & _). rewrite Hh, vsum_vneg. lra.
  - cbn [vnonempty orb obind] in H. inversion H; subst. split; [|reflexivity].
    destruct (holds_get (s_holds s') (o_id o)); [cbn [vsum]; lra | discriminate En].
Qed.
