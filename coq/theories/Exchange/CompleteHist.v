(* C04, completeness over histories: "with unlimited liquidity and ample funds a market order is completely filled by the
   next bar of its pair".  In every reachable state, when a bar of pair [p] is processed without an internal error, every
   market / stop order of pair [p] that was open before the bar is closed after it, and it has traded its whole amount --
   or nothing, and then for a reason that can be named at the moment its turn came: no fill proposed (liquidity left
   short of the whole amount, stop not reached), a fill that rounds to nothing, or an account update refused for lack of
   funds.  With unlimited liquidity the first reason cannot apply to a market order.
   The traversal visits the open orders in index order; processing an order rewrites that order's record only, so every
   order is still as it was when its turn comes, and a closed order never changes again. *)
From Coq Require Import ZArith QArith Qround Lia Lqa List Bool PArith.
From Basana Require Import Num.DecQ Num.DecQProofs Exchange.Model Exchange.AcctProofs Exchange.StepProofs
  Exchange.OpProofs Exchange.FeeProofs Exchange.OrderProofs Exchange.LifeProofs Exchange.Prims Exchange.FillBounds
  Exchange.Structure Exchange.FillTimes Exchange.GridProofs Exchange.NoPartial Exchange.IndexProofs Exchange.FirstBar
  Exchange.Complete.
Import ListNotations.
Open Scope Q_scope.

(* ---------------------------------------------------------------------------------------------- *)
(* processing an order leaves the records of the other orders alone *)
Section XFrame.
Variable j : nat.
Variable X : option order.
Definition Kx (s : st) : Prop := nth_error (s_orders s) j = X.
Definition kx {A} (r : outcome A) : Prop := Kx (sof r).

Lemma Kx_orders s s' : s_orders s' = s_orders s -> Kx s -> Kx s'.
Proof. unfold Kx. intros ->. auto. Qed.

Lemma Kx_put s o : o_id o <> j -> Kx s -> Kx (put_order s o).
Proof.
  intros Hne H. unfold Kx, put_order in *. cbn [set_orders s_orders]. rewrite nth_error_replace_nth.
  destruct (Nat.eqb j (o_id o)) eqn:E; [apply Nat.eqb_eq in E; congruence | exact H].
Qed.

Lemma kx_obind A B (r : outcome A) (f : st -> A -> outcome B) :
  kx r -> (forall s a, Kx s -> kx (f s a)) -> kx (obind r f).
Proof. destruct r as [s a|s e]; unfold kx; cbn [obind sof]; intros H Hf; [apply Hf; exact H | exact H]. Qed.

Lemma kx_of_ko A (r : outcome A) s : Ko (s_orders s) (sof r) -> Kx s -> kx r.
Proof. intros Ho H. unfold kx. apply (Kx_orders s); [exact Ho | exact H]. Qed.

Lemma kx_update_balances c s o bu : Kx s -> kx (update_balances c s o bu).
Proof. intros H. apply (kx_of_ko _ _ s); [apply ko_update_balances; reflexivity | exact H]. Qed.

Lemma kx_order_closed c s o : o_id o <> j -> Kx s -> kx (order_closed c s o).
Proof.
  intros Hne H. unfold order_closed. apply kx_obind; [apply kx_update_balances; exact H|]. intros s1 _ H1.
  destruct (o_ar o && negb (Qzero (filled o))); [|exact H1]. unfold repay_loans.
  destruct (check_infos c s1 (s_loans s1)); cbn [lift obind]; [|exact H1].
  apply kx_obind.
  - apply (kx_of_ko _ _ s1); [apply ko_repay_each; reflexivity | exact H1].
  - intros s2 ids H2. unfold kx. cbn [sof]. apply Kx_put; [exact Hne | exact H2].
Qed.

Lemma kx_close_as c s o w : o_id o <> j -> Kx s ->
  kx (obind (order_closed c (put_order s (with_state o SCanceled)) (with_state o SCanceled))
            (fun s o2 => Done (push_update s o2 w) tt)).
Proof.
  intros Hne H. apply kx_obind; [apply kx_order_closed; [exact Hne | apply Kx_put; [exact Hne | exact H]]|].
  intros s2 o2 H2. unfold kx. cbn [sof]. apply (Kx_orders s2); [apply orders_push | exact H2].
Qed.

Lemma kx_order_not_filled c s o when : o_id o <> j -> Kx s -> kx (order_not_filled c s o when).
Proof.
  intros Hne H. unfold order_not_filled.
  destruct (o_kind o); try exact H; (destruct (negb (is_open o)); [exact H | apply kx_close_as; assumption]).
Qed.

Lemma kx_process_order c s l o p when b : o_id o <> j -> Kx s -> kx (process_order c s l o p when b).
Proof.
  intros Hne H. unfold process_order.
  destruct (balance_updates c l o b) as [[u hit]|]; cbn [lift obind]; [|exact H].
  set (o1 := with_hit o hit). assert (H1 : Kx (put_order s o1)) by (apply Kx_put; [exact Hne | exact H]).
  destruct (get_pair_info c (o_pair o1)); cbn [lift obind]; [|exact H1].
  assert (NF : forall s2, Kx s2 -> kx (obind (order_not_filled c s2 o1 when) (fun s _ => Done s l))).
  { intros s2 I2. apply kx_obind; [apply kx_order_not_filled; [exact Hne | exact I2] | intros s3 u3 I3; exact I3]. }
  destruct (match u with Some (bv, qv) => round_bu _ (Some bv) (Some qv) | None => (None, None) end) as [rb rq].
  destruct rb as [bv|]; [destruct rq as [qv|]|]; try (apply NF; exact H1).
  destruct (calc_fee c _ o1 qv) as [fee|]; cbn [lift obind]; [|exact H1].
  match goal with |- kx (match update_balances c ?s1 o1 ?f with _ => _ end) =>
    pose proof (kx_update_balances c s1 o1 f H1) as H2; destruct (update_balances c s1 o1 f) as [s2 u2|s2 e2] end;
    unfold kx in H2; cbn [sof] in H2.
  - destruct (take_liquidity l (Qabsq bv)); cbn [lift obind]; [|exact H2].
    apply kx_obind.
    + match goal with |- kx (if is_open ?o2 then _ else _) =>
        assert (H3 : Kx (put_order s2 o2)) by (apply Kx_put; [exact Hne | exact H2]);
        destruct (is_open o2); [exact H3 | apply kx_order_closed; [exact Hne | exact H3]] end.
    + intros s4 o4 H4. unfold kx. cbn [sof]. apply (Kx_orders s4); [apply orders_push | exact H4].
  - destruct e2; try exact H2. apply NF. exact H2.
Qed.
End XFrame.

(* unlimited liquidity stays unlimited *)
Lemma process_order_keeps_inf c s o p when b s' l' : process_order c s None o p when b = Done s' l' -> l' = None.
Proof.
  unfold process_order. intros H.
  destruct (balance_updates c None o b) as [[u hit]|]; cbn [lift obind] in H; [|discriminate H].
  destruct (get_pair_info c _); cbn [lift obind] in H; [|discriminate H].
  assert (NF : forall s2 o1, obind (order_not_filled c s2 o1 when) (fun s _ => Done s None) = Done s' l' -> l' = None).
  { intros s2 o1 X. destruct (order_not_filled c s2 o1 when); cbn [obind] in X; [inversion X; reflexivity | discriminate X]. }
  destruct (match u with Some (bv, qv) => round_bu _ (Some bv) (Some qv) | None => (None, None) end) as [rb rq].
  destruct rb as [bv|]; [destruct rq as [qv|]|]; try (exact (NF _ _ H)).
  destruct (calc_fee c _ _ qv); cbn [lift obind] in H; [|discriminate H].
  match type of H with (match update_balances c ?s1 ?o1 ?f with _ => _ end) = _ => destruct (update_balances c s1 o1 f) as [s2 u2|s2 e2] end.
  - unfold take_liquidity in H. destruct (Qltb 0 (Qabsq bv)); cbn [lift obind] in H; [|discriminate H].
    match type of H with obind ?r _ = _ => destruct r; cbn [obind] in H; [inversion H; reflexivity | discriminate H] end.
  - destruct e2; try discriminate H. exact (NF _ _ H).
Qed.

Section Hist.
Variable c : cfg.

Definition why_unfilled (o : order) (b : bar) (inf : bool) : Prop :=
  exists s_mid l_mid, (inf = true -> l_mid = None) /\
    (nothing_proposed c l_mid o b \/ rounds_to_nothing c l_mid o b \/ refused_for_funds c s_mid o).

Lemma process_all_aon_outcome ids p when b : forall s l s' l',
  WF s -> liq_ok l -> process_all c s l ids p when b = Done s' l' ->
  forall j o0, In j ids -> get_order s j = Some o0 -> is_open o0 = true -> aon (o_kind o0) -> NP c o0 ->
  pair_eqb (o_pair o0) p = true ->
  exists o', get_order s' j = Some o' /\ is_open o' = false /\
    (filled o' == o_amount o0 \/
     (filled o' == 0 /\ why_unfilled o0 b (match l with None => true | Some _ => false end))).
Proof.
  induction ids as [|h r IH]; intros s l s' l' Hw Hl H j o0 Hin Eg Hop Ka Hnp Hp; [destruct Hin|].
  cbn [process_all] in H.
  destruct (get_order s h) as [oh|] eqn:Egh.
  2:{ destruct Hin as [E|Hin]; [subst h; congruence|].
      exact (IH s l s' l' Hw Hl H j o0 Hin Eg Hop Ka Hnp Hp). }
  destruct (is_open oh && pair_eqb (o_pair oh) p) eqn:Eop.
  2:{ destruct Hin as [E|Hin]; [subst h; assert (Eo : oh = o0) by congruence; subst oh; rewrite Hop, Hp in Eop; discriminate Eop|].
      exact (IH s l s' l' Hw Hl H j o0 Hin Eg Hop Ka Hnp Hp). }
  assert (Eid : o_id oh = h) by (destruct Hw as (Ho & _); destruct (Ho _ _ Egh); assumption).
  assert (Hg : get_order s (o_id oh) = Some oh) by (rewrite Eid; exact Egh).
  apply andb_true_iff in Eop. destruct Eop as [Hopn _].
  assert (Hwo : was_open s (o_id oh)).
  { intros x Hx. unfold get_order in Hg. rewrite Hg in Hx. inversion Hx; subst. exact Hopn. }
  destruct (rp_process_order c s s l oh p when b (R_of_WF c s Hw) Hg Hwo Hl) as [R1 L1].
  destruct (process_order c s l oh p when b) as [s1 l1|s1 e1] eqn:Ep; cbn [obind sof] in *; [|discriminate H].
  destruct R1 as (W1 & _).
  destruct (Nat.eq_dec h j) as [Ehj|Hne].
  - (* its turn *)
    assert (Eo : oh = o0) by (rewrite Ehj in Egh; congruence). subst oh.
    destruct (aon_order_outcome c s l o0 p when b s1 l1 Hg Hop Ka Hnp Ep) as (o' & G1 & C1 & Out).
    rewrite Eid, Ehj in G1.
    destruct (rp_process_all c s1 r p when b s1 l1 (R_of_WF c s1 W1) L1) as [(_ & _ & Fn) _].
    rewrite H in Fn. cbn [sof] in Fn. exists o'. split; [exact (Fn j o' G1 C1)|]. split; [exact C1|].
    destruct Out as [F|[F W]]; [left; exact F | right; split; [exact F|]].
    exists s, l. split; [|exact W]. destruct l; [discriminate | reflexivity].
  - (* somebody else's turn: the record of j is untouched *)
    destruct Hin as [E|Hin]; [congruence|].
    pose proof (kx_process_order j (Some o0) c s l oh p when b) as K. rewrite Eid in K. specialize (K Hne Eg).
    rewrite Ep in K. unfold kx, Kx in K. cbn [sof] in K.
    destruct (IH s1 l1 s' l' W1 L1 H j o0 Hin K Hop Ka Hnp Hp) as (o' & G & C & Out).
    exists o'. split; [exact G|]. split; [exact C|]. destruct Out as [F|[F (sm & lm & Hinf & W)]]; [left; exact F | right; split; [exact F|]].
    exists sm, lm. split; [|exact W]. intros Ei. apply Hinf. destruct l as [[t u]|]; [discriminate Ei|].
    rewrite (process_order_keeps_inf c s oh p when b s1 l1 Ep). reflexivity.
Qed.

(* C04, whole history *)
Theorem market_and_stop_orders_filled_by_the_next_bar initial ops p when b s' :
  cfg_ok c -> ops_ok (ops ++ [OBar p when b]) ->
  let s := run c (init_st initial) ops in
  step c s (OBar p when b) = (s', ROk) ->
  forall j o0, get_order s j = Some o0 -> is_open o0 = true -> aon (o_kind o0) -> pair_eqb (o_pair o0) p = true ->
  exists o', get_order s' j = Some o' /\ is_open o' = false /\
    (filled o' == o_amount o0 \/
     (filled o' == 0 /\ why_unfilled o0 b (match c_liq c with InfLiq => true | _ => false end))).
Proof.
  intros Hc Ho s Hs j o0 Eg Hop Ka Hp.
  apply Forall_app in Ho. destruct Ho as [Ho Hb]. inversion Hb as [|? ? Hb1 _]; subst. cbn [op_ok] in Hb1.
  assert (Hw : WF s) by (apply (run_prims c ops (init_st initial) Hc Ho (WF_init initial))).
  assert (Hi : IdxInv s) by (apply run_IdxInv; [exact Hc | exact Ho | apply WF_init | apply IdxInv_init]).
  assert (Hn : NI c s).
  { apply run_NI; [exact Hc | exact Ho | apply WF_init | intros k x Hk; destruct k; discriminate Hk]. }
  cbn [step] in Hs. destruct (on_bar c s p when b) as [s2 u2|s2 e2] eqn:Eb; inversion Hs; subst s2. clear Hs.
  unfold on_bar, bump_reindex in Eb.
  set (s1 := set_open_idx (set_close_now s (set_pair (s_close s) p (b_close b)) (Some when))
                          (s_open_idx (set_close_now s (set_pair (s_close s) p (b_close b)) (Some when)))
                          (S (s_reidx (set_close_now s (set_pair (s_close s) p (b_close b)) (Some when))))) in *.
  assert (W1 : WF s1) by exact Hw.
  match type of Eb with obind (process_all c s1 ?l0 ?ids p when b) _ = _ =>
    assert (L0 : liq_ok l0); [|destruct (process_all c s1 l0 ids p when b) as [s2 l2|s2 e2] eqn:Epa] end.
  { unfold cfg_ok in Hc. destruct (c_liq c) as [|lp ip]; [exact I|]. cbn [liq_ok].
    split; [lra|]. apply Qmult_le_0_compat; [exact Hb1|]. apply Qle_shift_div_l; lra. }
  2:{ cbn [obind] in Eb. discriminate Eb. }
  cbn [obind] in Eb. inversion Eb; subst s'.
  assert (Hin : In j (s_open_idx s1)) by (destruct Hi as (Ha & _); exact (Ha j o0 Eg Hop)).
  destruct (process_all_aon_outcome _ p when b s1 _ s2 l2 W1 L0 Epa j o0 Hin Eg Hop Ka (Hn j o0 Eg) Hp) as (o' & G & C & Out).
  exists o'. split.
  - unfold finish_reindex. match goal with |- context [if ?f then _ else _] => destruct f end; exact G.
  - split; [exact C|]. destruct (c_liq c); exact Out.
Qed.

(* ... and with unlimited liquidity a market order always gets its whole amount proposed *)
Theorem market_orders_filled_by_the_next_bar_funds_permitting initial ops p when b s' :
  c_liq c = InfLiq -> ops_ok (ops ++ [OBar p when b]) ->
  let s := run c (init_st initial) ops in
  step c s (OBar p when b) = (s', ROk) ->
  forall j o0, get_order s j = Some o0 -> is_open o0 = true -> o_kind o0 = KMarket -> pair_eqb (o_pair o0) p = true ->
  exists o', get_order s' j = Some o' /\ is_open o' = false /\
    (filled o' == o_amount o0 \/
     (filled o' == 0 /\ ((exists l, rounds_to_nothing c l o0 b) \/ (exists s_mid, refused_for_funds c s_mid o0)))).
Proof.
  intros Hinf Ho s Hs j o0 Eg Hop Hk Hp.
  assert (Hc : cfg_ok c) by (unfold cfg_ok; rewrite Hinf; exact I).
  assert (Ka : aon (o_kind o0)) by (left; exact Hk).
  destruct (market_and_stop_orders_filled_by_the_next_bar initial ops p when b s' Hc Ho Hs j o0 Eg Hop Ka Hp)
    as (o' & G & C & Out).
  exists o'. split; [exact G|]. split; [exact C|]. destruct Out as [F|[F (sm & lm & Hl & W)]]; [left; exact F | right; split; [exact F|]].
  rewrite Hinf in Hl. specialize (Hl eq_refl). subst lm.
  destruct W as [W|[W|W]]; [|left; exists None; exact W | right; exists sm; exact W].
  exfalso.
  assert (Ho' : ops_ok ops) by (apply Forall_app in Ho; apply Ho).
  assert (Hn : NI c s) by (apply run_NI; [exact Hc | exact Ho' | apply WF_init | intros k x Hk'; destruct k; discriminate Hk']).
  exact (market_always_proposes c o0 b Hk (NP_pending c o0 Ka (Hn j o0 Eg) Hop) W).
Qed.
End Hist.

(* ---------------------------------------------------------------------------------------------- *)
(* limit orders: "... a limit order by the first bar whose range reaches its limit" *)
Section LimitHist.
Variable c : cfg.

(* what acceptance established, and no fill changes: the amount is on the base grid of the pair, limit prices are positive *)
Definition LA (o : order) : Prop :=
  (exists pi, get_pair_info c (o_pair o) = Ok pi /\ on_grid (fst pi) (o_amount o)) /\
  (forall lp, o_kind o = KLimit lp -> 0 < lp).

Lemma LA_fresh o : accepted c o -> LA o.
Proof.
  intros (pi & Epi & Eva). unfold validate in Eva.
  destruct (Qle_bool (o_amount o) 0); [discriminate Eva|].
  destruct (on_grid_b (fst pi) (o_amount o)) eqn:Eg; cbn [negb] in Eva; [|discriminate Eva].
  split; [exists pi; split; [exact Epi | exact (on_grid_b_true _ _ Eg)]|].
  intros lp Hk. rewrite Hk in Eva.
  destruct (Qle_bool lp 0) eqn:E0; [discriminate Eva|]. apply Qle_bool_false' in E0. exact E0.
Qed.

Definition LI (s : st) : Prop := forall i o, nth_error (s_orders s) i = Some o -> LA o.

Lemma LI_step s o : cfg_ok c -> op_ok o -> WF s -> LI s -> LI (fst (step c s o)).
Proof.
  intros Hc Ho Hw Hi.
  assert (S1 : ST (fun _ _ => True) LA c s (fst (step c s o))).
  { apply step_ST; try assumption.
    - intros x h H. exact H.
    - intros x H. exact H.
    - intros x ids H. exact H.
    - intros; exact I.
    - intros p w b _ l x _ _ _ hit pi bv0 qv0 bv qv fee _ _ _ _ H. exact H. }
  destruct S1 as [Sa Sb]. intros i x Hx.
  destruct (nth_error (s_orders s) i) as [o0|] eqn:E0.
  - destruct (Sa i o0 E0) as (o1 & E1 & _ & _ & HJ). rewrite E1 in Hx. inversion Hx; subst o1. exact (HJ (Hi i o0 E0)).
  - apply nth_error_None in E0. destruct (Sb i x Hx E0) as [_ Ha]. exact (LA_fresh x Ha).
Qed.

Theorem run_LI ops : forall s, cfg_ok c -> ops_ok ops -> WF s -> LI s -> LI (run c s ops).
Proof.
  unfold run. induction ops as [|op r IH]; intros s Hc Ho Hw Hi; cbn [fold_left]; [exact Hi|].
  inversion Ho as [|? ? Ho1 Hor]; subst.
  apply IH; try assumption; [exact (proj1 (step_prims c s op Hc Ho1 Hw)) | apply LI_step; assumption].
Qed.

Definition limit_outcome (s' : st) (j : nat) (o0 : order) (b : bar) : Prop :=
  exists o', get_order s' j = Some o' /\
    ((is_open o' = false /\ filled o' == o_amount o0) \/
     (is_open o' = true /\ o_fb o' = o_fb o0 /\
      ((exists l, rounds_to_nothing c l o0 b) \/ (exists s_mid, refused_for_funds c s_mid o0)))).

Lemma process_all_limit_outcome ids p when b : forall s s' l',
  NoDup ids -> WF s -> process_all c s None ids p when b = Done s' l' ->
  forall j o0 lp bp qp, In j ids -> get_order s j = Some o0 -> is_open o0 = true -> o_kind o0 = KLimit lp -> 0 < lp ->
  bar_ok b -> get_pair_info c (o_pair o0) = Ok (bp, qp) -> on_grid bp (o_amount o0) -> on_grid bp (o_fb o0) ->
  0 < pending o0 -> reaches_limit o0 b lp -> pair_eqb (o_pair o0) p = true ->
  limit_outcome s' j o0 b.
Proof.
  induction ids as [|h r IH]; intros s s' l' Hnd Hw H j o0 lp bp qp Hin Eg Hop Hk Hlp Hb Epi Ga Gf Hpe Hr Hp; [destruct Hin|].
  cbn [process_all] in H. inversion Hnd as [|? ? Hnotin Hndr]; subst.
  (* once j has had its turn, nothing that follows touches its record *)
  assert (REST : forall s1 l1 o1, WF s1 -> liq_ok l1 -> process_all c s1 l1 r p when b = Done s' l' ->
                   get_order s1 j = Some o1 -> ~ In j r \/ True -> (is_open o1 = false) -> get_order s' j = Some o1).
  { intros s1 l1 o1 W1 L1 X G1 _ C1.
    destruct (rp_process_all c s1 r p when b s1 l1 (R_of_WF c s1 W1) L1) as [(_ & _ & Fn) _].
    rewrite X in Fn. cbn [sof] in Fn. exact (Fn j o1 G1 C1). }
  destruct (get_order s h) as [oh|] eqn:Egh.
  2:{ destruct Hin as [E|Hin]; [subst h; congruence|].
      exact (IH s s' l' Hndr Hw H j o0 lp bp qp Hin Eg Hop Hk Hlp Hb Epi Ga Gf Hpe Hr Hp). }
  destruct (is_open oh && pair_eqb (o_pair oh) p) eqn:Eop.
  2:{ destruct Hin as [E|Hin]; [subst h; assert (Eo : oh = o0) by congruence; subst oh; rewrite Hop, Hp in Eop; discriminate Eop|].
      exact (IH s s' l' Hndr Hw H j o0 lp bp qp Hin Eg Hop Hk Hlp Hb Epi Ga Gf Hpe Hr Hp). }
  assert (Eid : o_id oh = h) by (destruct Hw as (Ho & _); destruct (Ho _ _ Egh); assumption).
  assert (Hg : get_order s (o_id oh) = Some oh) by (rewrite Eid; exact Egh).
  apply andb_true_iff in Eop. destruct Eop as [Hopn _].
  assert (Hwo : was_open s (o_id oh)).
  { intros x Hx. unfold get_order in Hg. rewrite Hg in Hx. inversion Hx; subst. exact Hopn. }
  destruct (rp_process_order c s s None oh p when b (R_of_WF c s Hw) Hg Hwo I) as [R1 L1].
  destruct (process_order c s None oh p when b) as [s1 l1|s1 e1] eqn:Ep; cbn [obind sof] in *; [|discriminate H].
  destruct R1 as (W1 & _).
  pose proof (process_order_keeps_inf c s oh p when b s1 l1 Ep) as El1. subst l1.
  destruct (Nat.eq_dec h j) as [Ehj|Hne].
  - assert (Eo : oh = o0) by (rewrite Ehj in Egh; congruence). subst oh.
    assert (How : OW o0) by (destruct Hw as (Ho & _); destruct (Ho _ _ Egh); assumption).
    destruct (limit_order_filled_when_reached_funds_permitting c s o0 p when b lp bp qp s1 None Hg Hop Hk Hlp Hb Epi Ga Gf How Hpe Hr Ep)
      as (o1 & G1 & Out).
    rewrite Eid, Ehj in G1.
    destruct Out as [[C1 F1]|(O1 & F1 & W0)].
    + exists o1. split; [exact (REST s1 None o1 W1 I H G1 (or_intror I) C1)|]. left. split; assumption.
    + (* left open and untouched: it is not listed again, and the rest of the traversal does not touch its record *)
      clear REST. assert (Hnj : ~ In j r) by (rewrite <- Ehj; exact Hnotin).
      assert (W : (exists l, rounds_to_nothing c l o0 b) \/ (exists s_mid, refused_for_funds c s_mid o0))
        by (destruct W0 as [X|X]; [left; exists None; exact X | right; exists s; exact X]).
      assert (Gen : forall r2 s2 l2, ~ In j r2 -> WF s2 -> process_all c s2 None r2 p when b = Done s' l2 ->
                      get_order s2 j = Some o1 -> limit_outcome s' j o0 b).
      { clear IH H Hnj. induction r2 as [|h2 r2 IH2]; intros s2 l2 Hn2 W2 X G2; cbn [process_all] in X.
        - inversion X; subst. exists o1. split; [exact G2|]. right. split; [exact O1|]. split; [exact F1 | exact W].
        - assert (Hn3 : ~ In j r2) by (intros Y; apply Hn2; right; exact Y).
          assert (Hne2 : h2 <> j) by (intros Y; apply Hn2; left; exact Y).
          destruct (get_order s2 h2) as [o2|] eqn:E2; [|exact (IH2 s2 l2 Hn3 W2 X G2)].
          destruct (is_open o2 && pair_eqb (o_pair o2) p) eqn:Eop2; [|exact (IH2 s2 l2 Hn3 W2 X G2)].
          assert (Eid2 : o_id o2 = h2) by (destruct W2 as (Ho & _); destruct (Ho _ _ E2); assumption).
          assert (Hg2 : get_order s2 (o_id o2) = Some o2) by (rewrite Eid2; exact E2).
          apply andb_true_iff in Eop2. destruct Eop2 as [Hopn2 _].
          assert (Hwo2 : was_open s2 (o_id o2)).
          { intros x Hx. unfold get_order in Hg2. rewrite Hg2 in Hx. inversion Hx; subst. exact Hopn2. }
          destruct (rp_process_order c s2 s2 None o2 p when b (R_of_WF c s2 W2) Hg2 Hwo2 I) as [R3 _].
          destruct (process_order c s2 None o2 p when b) as [s3 l3|s3 e3] eqn:Ep2; cbn [obind sof] in *; [|discriminate X].
          destruct R3 as (W3 & _). pose proof (process_order_keeps_inf c s2 o2 p when b s3 l3 Ep2) as El3. subst l3.
          pose proof (kx_process_order j (Some o1) c s2 None o2 p when b) as K. rewrite Eid2 in K. specialize (K Hne2 G2).
          rewrite Ep2 in K. unfold kx, Kx in K. cbn [sof] in K. exact (IH2 s3 l2 Hn3 W3 X K). }
      exact (Gen r s1 l' Hnj W1 H G1).
  - destruct Hin as [E|Hin]; [congruence|].
    pose proof (kx_process_order j (Some o0) c s None oh p when b) as K. rewrite Eid in K. specialize (K Hne Eg).
    rewrite Ep in K. unfold kx, Kx in K. cbn [sof] in K.
    exact (IH s1 s' l' Hndr W1 H j o0 lp bp qp Hin K Hop Hk Hlp Hb Epi Ga Gf Hpe Hr Hp).
Qed.

(* C04, whole history: with unlimited liquidity, a bar of its pair whose range reaches the limit fills an open limit order
   completely -- or, if the fill rounds to nothing or funds are lacking when its turn comes, leaves it open and untouched *)
Theorem limit_orders_filled_by_a_reaching_bar initial ops p when b s' :
  c_liq c = InfLiq -> ops_ok (ops ++ [OBar p when b]) -> bar_ok b ->
  let s := run c (init_st initial) ops in
  step c s (OBar p when b) = (s', ROk) ->
  forall j o0 lp, get_order s j = Some o0 -> is_open o0 = true -> o_kind o0 = KLimit lp ->
  pair_eqb (o_pair o0) p = true -> reaches_limit o0 b lp ->
  limit_outcome s' j o0 b.
Proof.
  intros Hinf Ho Hbar s Hs j o0 lp Eg Hop Hk Hp Hr.
  assert (Hc : cfg_ok c) by (unfold cfg_ok; rewrite Hinf; exact I).
  apply Forall_app in Ho. destruct Ho as [Ho Hb]. inversion Hb as [|? ? Hb1 _]; subst. cbn [op_ok] in Hb1.
  assert (Hw : WF s) by (apply (run_prims c ops (init_st initial) Hc Ho (WF_init initial))).
  assert (Hi : IdxInv s) by (apply run_IdxInv; [exact Hc | exact Ho | apply WF_init | apply IdxInv_init]).
  assert (Hl : LI s) by (apply run_LI; [exact Hc | exact Ho | apply WF_init | intros k x Hk'; destruct k; discriminate Hk']).
  assert (Hg : GridProofs.GI c s) by (apply run_GI; [exact Hc | exact Ho | apply WF_init | apply GI_init]).
  pose proof (open_orders_have_something_pending c initial ops j o0 Hc Ho Eg Hop) as Hpe.
  destruct (Hl j o0 Eg) as [([bp qp] & Epi & Ga) Hlp]. specialize (Hlp lp Hk). cbn [fst] in Ga.
  assert (Gf : on_grid bp (o_fb o0)).
  { destruct (Hg j o0 Eg) as (F & Sb & _ & _). rewrite Sb.
    apply (fsum_on_grid c (o_pair o0) (bp, qp) f_base fst (o_fills o0) Epi); [|exact F].
    intros f (pi & E & A & _). rewrite Epi in E. inversion E; subst pi. exact A. }
  cbn [step] in Hs. destruct (on_bar c s p when b) as [s2 u2|s2 e2] eqn:Eb; inversion Hs; subst s2. clear Hs.
  unfold on_bar, bump_reindex in Eb. rewrite Hinf in Eb.
  set (s1 := set_open_idx (set_close_now s (set_pair (s_close s) p (b_close b)) (Some when))
                          (s_open_idx (set_close_now s (set_pair (s_close s) p (b_close b)) (Some when)))
                          (S (s_reidx (set_close_now s (set_pair (s_close s) p (b_close b)) (Some when))))) in *.
  assert (W1 : WF s1) by exact Hw.
  destruct (process_all c s1 None (s_open_idx s1) p when b) as [s2 l2|s2 e2] eqn:Epa; cbn [obind] in Eb; [|discriminate Eb].
  inversion Eb; subst s'.
  destruct Hi as (Ha & Hnd & _).
  destruct (process_all_limit_outcome (s_open_idx s1) p when b s1 s2 l2 Hnd W1 Epa j o0 lp bp qp (Ha j o0 Eg Hop) Eg Hop Hk Hlp
              Hbar Epi Ga Gf Hpe Hr Hp) as (o' & G & Out).
  exists o'. split; [|exact Out].
  unfold finish_reindex. match goal with |- context [if ?f then _ else _] => destruct f end; exact G.
Qed.
End LimitHist.
