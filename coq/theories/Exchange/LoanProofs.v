(* C11: interest and the loan life cycle *)
From Coq Require Import ZArith QArith Qround Lia Lqa List Bool PArith Sorting.Sorted Sorting.Permutation.
From Basana Require Import Num.DecQ Num.DecQProofs Exchange.Model Exchange.AcctProofs Exchange.StepProofs
     Exchange.OpProofs Exchange.OrderProofs.
Import ListNotations.
Open Scope Q_scope.

(* interest is never below the configured minimum, hence never negative when the minimum is not *)
Theorem calc_interest_ge_min cl l t i : calc_interest cl l t = Ok i -> min_interest (l_cond l) <= i.
Proof.
  unfold calc_interest. destruct (Z.ltb t (l_created l)); [discriminate|].
  destruct (if Pos.eqb _ _ then _ else _) as [i2|]; cbn [rbind]; [|discriminate].
  intros H. inversion H. apply Qmaxq_ge_r.
Qed.

Theorem calc_interest_nonneg cl l t i :
  0 <= min_interest (l_cond l) -> calc_interest cl l t = Ok i -> 0 <= i.
Proof. intros Hm H. pose proof (calc_interest_ge_min cl l t i H). lra. Qed.

(* same-symbol interest: percentage of the principal, proportional to the elapsed time, but at least the minimum *)
Theorem calc_interest_same_symbol cl l t :
  interest_sym (l_cond l) = l_sym l -> (l_created l <= t)%Z ->
  calc_interest cl l t =
  Ok (Qmaxq (if Z.eqb (interest_period (l_cond l)) 0 then interest_pct (l_cond l) / 100 * l_amount l
             else interest_pct (l_cond l) / 100 * l_amount l *
                  (inject_Z (t - l_created l) / inject_Z (interest_period (l_cond l))))
            (min_interest (l_cond l))).
Proof.
  intros Hs Ht. unfold calc_interest.
  assert (E : Z.ltb t (l_created l) = false) by (apply Z.ltb_ge; exact Ht). rewrite E.
  rewrite Hs, Pos.eqb_refl. cbn [rbind]. reflexivity.
Qed.

Lemma Qmaxq_mono_l a a' b : a <= a' -> Qmaxq a b <= Qmaxq a' b.
Proof.
  intros H. unfold Qmaxq. destruct (Qle_bool a b) eqn:E1, (Qle_bool a' b) eqn:E2;
    try apply Qle_bool_iff in E1; try apply Qle_bool_iff in E2;
    try apply Qle_bool_false in E1; try apply Qle_bool_false in E2; lra.
Qed.

(* ... and it never decreases as simulated time passes *)
Theorem calc_interest_monotone cl l t1 t2 i1 i2 :
  interest_sym (l_cond l) = l_sym l -> (l_created l <= t1 <= t2)%Z ->
  0 <= interest_pct (l_cond l) -> 0 <= l_amount l -> (0 < interest_period (l_cond l))%Z ->
  calc_interest cl l t1 = Ok i1 -> calc_interest cl l t2 = Ok i2 -> i1 <= i2.
Proof.
  intros Hs [Hc Ht] Hp Ha Hper H1 H2.
  rewrite (calc_interest_same_symbol cl l t1 Hs Hc) in H1.
  rewrite (calc_interest_same_symbol cl l t2 Hs) in H2 by lia.
  assert (E : Z.eqb (interest_period (l_cond l)) 0 = false) by (apply Z.eqb_neq; lia).
  rewrite E in H1, H2. injection H1 as <-. injection H2 as <-. apply Qmaxq_mono_l.
  assert (Hq : 0 < inject_Z (interest_period (l_cond l))).
  { change 0 with (inject_Z 0). rewrite <- Zlt_Qlt. exact Hper. }
  assert (Hd : inject_Z (t1 - l_created l) / inject_Z (interest_period (l_cond l)) <=
               inject_Z (t2 - l_created l) / inject_Z (interest_period (l_cond l))).
  { unfold Qdiv. apply Qmult_le_compat_r.
    - rewrite <- Zle_Qle. lia.
    - apply Qlt_le_weak, Qinv_lt_0_compat, Hq. }
  assert (Hpa : 0 <= interest_pct (l_cond l) / 100 * l_amount l).
  { unfold Qdiv. apply Qmult_le_0_compat; [apply Qmult_le_0_compat; [exact Hp|discriminate] | exact Ha]. }
  nra.
Qed.

(* what is reported / charged is the interest truncated to the interest symbol's precision *)
Theorem outstanding_spec c s l v :
  outstanding c s l = Ok v ->
  exists t i p, s_now s = Some t /\ calc_interest (s_close s) l t = Ok i /\
                get_sym_prec c (interest_sym (l_cond l)) = Ok p /\ v = qtrunc p i /\ on_grid p v.
Proof.
  unfold outstanding, now_of. destruct (s_now s) as [t|]; cbn [rbind]; [|discriminate].
  destruct (calc_interest (s_close s) l t) as [i|] eqn:Ei; cbn [rbind]; [|discriminate].
  destruct (get_sym_prec c _) as [p|] eqn:Ep; cbn [rbind]; [|discriminate].
  intros H. injection H as <-. exists t, i, p.
  split; [reflexivity|]. split; [first [exact Ei | reflexivity]|]. split; [first [exact Ep | reflexivity]|].
  split; [reflexivity | apply qtrunc_on_grid].
Qed.

Theorem outstanding_nonneg c s l v :
  0 <= min_interest (l_cond l) -> outstanding c s l = Ok v -> 0 <= v.
Proof.
  intros Hm H. destruct (outstanding_spec c s l v H) as (t & i & p & _ & Hi & _ & Hv & _).
  pose proof (calc_interest_nonneg _ _ _ _ Hm Hi) as Hi0. subst v. apply (qtrunc_nonneg p i Hi0).
Qed.

(* a closed or unknown loan cannot be repaid, and the attempt changes nothing *)
Theorem repay_not_open_fails c s id :
  (get_loan s id = None \/ exists l, get_loan s id = Some l /\ l_open l = false) ->
  exists e, repay_loan c s id = Fail s e.
Proof.
  unfold repay_loan, open_loan. intros [H | (l & H & Hc)]; rewrite H; [eexists; reflexivity|].
  rewrite Hc. eexists; reflexivity.
Qed.

(* auto-repay tries the candidate loans largest first; equal amounts keep their creation order *)
Lemma insert_desc_perm l ls : Permutation (l :: ls) (insert_desc l ls).
Proof.
  induction ls as [|h r IH]; cbn [insert_desc]; [apply Permutation_refl|].
  destruct (Qle_bool (l_amount h) (l_amount l)); [apply Permutation_refl|].
  eapply Permutation_trans; [apply perm_swap|]. apply perm_skip. exact IH.
Qed.

Theorem sort_desc_perm ls : Permutation ls (sort_desc ls).
Proof.
  unfold sort_desc. induction ls as [|l r IH]; cbn [fold_right]; [apply Permutation_refl|].
  eapply Permutation_trans; [apply perm_skip; exact IH | apply insert_desc_perm].
Qed.

Definition desc (a b : loan) : Prop := l_amount b <= l_amount a.

Lemma insert_desc_sorted l ls : LocallySorted desc ls -> LocallySorted desc (insert_desc l ls).
Proof.
  induction ls as [|h r IH]; intros Hs; cbn [insert_desc]; [constructor|].
  destruct (Qle_bool (l_amount h) (l_amount l)) eqn:E.
  - apply Qle_bool_iff in E. constructor; [exact Hs | exact E].
  - apply Qle_bool_false in E. inversion Hs as [| |a b r' Hs' Hab]; subst.
    + cbn [insert_desc]. constructor; [constructor | unfold desc; lra].
    + specialize (IH Hs'). cbn [insert_desc] in *.
      destruct (Qle_bool (l_amount b) (l_amount l)) eqn:E2.
      * constructor; [exact IH | unfold desc; lra].
      * constructor; [exact IH | exact Hab].
Qed.

Theorem sort_desc_sorted ls : LocallySorted desc (sort_desc ls).
Proof.
  unfold sort_desc. induction ls as [|l r IH]; cbn [fold_right]; [constructor|].
  apply insert_desc_sorted. exact IH.
Qed.
