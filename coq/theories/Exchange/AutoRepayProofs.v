(* C07 / C11: the repayments made when an auto-repay order closes.  In a state where every loan has a positive principal,
   borrowed = open principal and the account satisfies its rules, repaying an open loan whose interest can be priced either
   succeeds or is refused for lack of funds -- nothing else can go wrong -- so the loop that repays the candidates never
   aborts, and the cancellation of an open order fails, if at all, before anything was changed. *)
From Coq Require Import ZArith QArith Qround Lia Lqa List Bool PArith Sorting.Permutation.
From Basana Require Import Num.DecQ Num.DecQProofs Exchange.Model Exchange.AcctProofs Exchange.StepProofs
  Exchange.OpProofs Exchange.OrderProofs Exchange.HoldProofs Exchange.LoanProofs Exchange.Prims Exchange.FillBounds
  Exchange.Structure Exchange.LedgerProofs Exchange.AtomicProofs Exchange.LoanLife Exchange.CancelProofs.
Import ListNotations.
Open Scope Q_scope.

(* pricing the interest of a loan only looks at the clock and the last prices *)
Lemma outstanding_frame c s s' l : s_now s' = s_now s -> s_close s' = s_close s -> outstanding c s' l = outstanding c s l.
Proof. intros En Ec. unfold outstanding, now_of. rewrite En, Ec. reflexivity. Qed.

Lemma check_infos_frame c s s' ls : s_now s' = s_now s -> s_close s' = s_close s -> check_infos c s' ls = check_infos c s ls.
Proof.
  intros En Ec. induction ls as [|l r IH]; cbn [check_infos]; [reflexivity|].
  rewrite (outstanding_frame c s s' l En Ec), IH. reflexivity.
Qed.

Lemma check_infos_ok c s ls u :
  check_infos c s ls = Ok u -> forall l, In l ls -> l_open l = true -> exists i, outstanding c s l = Ok i.
Proof.
  induction ls as [|h r IH]; cbn [check_infos]; intros H l Hin Ho; [destruct Hin|].
  destruct (l_open h) eqn:Eh.
  - destruct (outstanding c s h) as [i|] eqn:Ei; cbn [rbind] in H; [|discriminate H].
    destruct Hin as [<-|Hin]; [exists i; exact Ei | apply (IH H l Hin Ho)].
  - destruct Hin as [<-|Hin]; [congruence | apply (IH H l Hin Ho)].
Qed.

(* every loan has a positive principal *)
Definition LA (s : st) : Prop := forall i l, nth_error (s_loans s) i = Some l -> 0 < l_amount l.

Lemma LA_loans_step c s ls ls' :
  (forall i l, nth_error ls i = Some l -> 0 < l_amount l) -> loans_step c s ls ls' ->
  forall i l, nth_error ls' i = Some l -> 0 < l_amount l.
Proof.
  intros H Hs i l. destruct Hs.
  - apply H.
  - rewrite nth_error_snoc. destruct (Nat.eqb i (length ls)); [intros X; inversion X; subst; cbn [l_amount]; assumption | apply H].
  - rewrite nth_error_replace_nth. destruct (Nat.eqb i id) eqn:E; [|apply H].
    apply Nat.eqb_eq in E. subst. rewrite H0. intros X; inversion X; subst. cbn [close_loan l_amount]. eapply H; eauto.
  - rewrite nth_error_replace_nth. destruct (Nat.eqb i id) eqn:E; [|apply H].
    apply Nat.eqb_eq in E. subst. rewrite H0. intros X; inversion X; subst. cbn [close_loan l_amount]. eapply H; eauto.
Qed.

Lemma LA_prims c s s' : WF s -> LA s -> prims c s s' -> LA s'.
Proof.
  intros Hw Hl Hp. induction Hp as [|s1 s2 s3 H12 IH H23]; [exact Hl|].
  unfold LA. eapply LA_loans_step; [apply IH; assumption | eapply prim_loans; [eapply WF_prims; eauto | exact H23]].
Qed.

(* borrowed covers every open loan *)
Lemma qsum_ge_elem {A} (f : A -> Q) l n a : (forall x, In x l -> 0 <= f x) -> nth_error l n = Some a -> f a <= qsum f l.
Proof.
  revert n. induction l as [|b r IH]; intros [|n] Hpos Hn; cbn [nth_error qsum] in *; try discriminate.
  - inversion Hn; subst.
    assert (0 <= qsum f r); [|lra].
    clear IH Hn. induction r as [|y r2 IH2]; cbn [qsum]; [lra|].
    assert (0 <= f y) by (apply Hpos; right; left; reflexivity).
    assert (0 <= qsum f r2); [|lra]. apply IH2. intros x [E|Hin]; apply Hpos; [left; exact E | right; right; exact Hin].
  - assert (0 <= f b) by (apply Hpos; left; reflexivity).
    assert (f a <= qsum f r); [|lra]. apply (IH n); [intros x Hin; apply Hpos; right; exact Hin | exact Hn].
Qed.

Lemma borrowed_covers_loan s id l :
  loans_inv s -> LA s -> get_loan s id = Some l -> l_open l = true -> l_amount l <= vget (bor (s_acct s)) (l_sym l).
Proof.
  intros Hi Hla Hg Ho. rewrite (Hi (l_sym l)). unfold lsum.
  assert (E : lcontrib (l_sym l) l = l_amount l) by (unfold lcontrib; rewrite Ho, Pos.eqb_refl; reflexivity).
  rewrite <- E. apply (qsum_ge_elem (lcontrib (l_sym l)) (s_loans s) id l); [|exact Hg].
  intros x Hin. unfold lcontrib. destruct (l_open x && Pos.eqb (l_sym x) (l_sym l)); [|lra].
  apply In_nth_error in Hin. destruct Hin as [n Hn]. apply Qlt_le_weak. eapply Hla; eauto.
Qed.

(* the account update of a repayment: accepted, or refused for lack of funds *)
Lemma repay_update_outcome c s a bu x amt :
  rules_pass a -> vnodup (bor a) -> 0 < amt -> amt <= vget (bor a) x ->
  (exists a', acct_update (margin_rule c s) a bu [] [(x, - amt)] = Ok a') \/
  acct_update (margin_rule c s) a bu [] [(x, - amt)] = Err ENotEnough.
Proof.
  intros [Hnz Hvh] Hn Hamt Hcov. unfold acct_update. rewrite (vadd_nil (hold a)).
  unfold nonzero_rule in Hnz.
  destruct (anyneg (bal a)) eqn:A1; [discriminate|]. destruct (anyneg (hold a)) eqn:A2; [discriminate|].
  destruct (anyneg (bor a)) eqn:A3; [discriminate|].
  set (w2 := Qred (vget (bor a) x + - amt)).
  assert (Eb : vadd (bor a) [(x, - amt)] = vset (bor a) x w2) by reflexivity.
  assert (N3 : anyneg (vset (bor a) x w2) = false).
  { apply anyneg_vset; [exact A3|]. unfold w2. rewrite Qred_correct. lra. }
  unfold nonzero_rule. cbn [bal hold bor]. rewrite Eb.
  destruct (anyneg (vadd (bal a) bu)); [right; reflexivity|]. rewrite A2, N3.
  clear Hvh.
  match goal with |- context [validhold_rule ?a'] => destruct (validhold_rule a') as [e|] eqn:V end.
  - right. unfold validhold_rule in V. destruct (existsb _ _); inversion V. reflexivity.
  - assert (M : margin_rule c s a (mkAcct (vadd (bal a) bu) (hold a) (vset (bor a) x w2)) = None).
    { unfold margin_rule. destruct (c_lend c); [reflexivity|]. cbn [bor].
      assert (Ex : existsb (fun kv => Qltb (vget (bor a) (fst kv)) (snd kv)) (vset (bor a) x w2) = false).
      { destruct (existsb _ _) eqn:Ex; [|reflexivity]. exfalso. apply existsb_exists in Ex.
        destruct Ex as ([k v] & Hin & Hlt). cbn [fst snd] in Hlt. apply Qltb_true in Hlt.
        pose proof (in_vset_val _ _ _ _ _ Hn Hin) as Ev. destruct (Pos.eqb x k) eqn:Exk; subst v; [|lra].
        apply Pos.eqb_eq in Exk. subst k. unfold w2 in Hlt. rewrite Qred_correct in Hlt. lra. }
      rewrite Ex. reflexivity. }
    rewrite M. left. eexists. reflexivity.
Qed.

(* the state a repayment loop runs in *)
Definition RJ (s : st) : Prop := WF s /\ RI (s_acct s) /\ loans_inv s /\ LA s.

Lemma repay_loan_outcome c s id l i :
  RJ s -> open_loan s id = Ok l -> outstanding c s l = Ok i ->
  (exists s', repay_loan c s id = Done s' tt /\ RJ s' /\ s_now s' = s_now s /\ s_close s' = s_close s /\
              s_orders s' = s_orders s /\
              (forall j, j <> id -> get_loan s' j = get_loan s j)) \/
  repay_loan c s id = Fail s ENotEnough.
Proof.
  intros (Hw & Hri & Hli & Hla) Ho Ei. pose proof Hri as (Hr & _ & _ & Hnb).
  destruct (open_loan_get _ _ _ Ho) as [Hg Hop].
  pose proof (borrowed_covers_loan s id l Hli Hla Hg Hop) as Hcov.
  assert (Hamt : 0 < l_amount l) by (eapply Hla; exact Hg).
  unfold repay_loan. rewrite Ho. cbn [lift obind]. rewrite Ei. cbn [lift obind]. unfold upd_acct.
  destruct (repay_update_outcome c s (s_acct s)
              (vadd [(l_sym l, - l_amount l)] (if Qzero i then [] else [(interest_sym (l_cond l), - i)]))
              (l_sym l) (l_amount l) Hr Hnb Hamt Hcov) as [[a' Ea]|Ee].
  - left. rewrite Ea. cbn [obind]. eexists. split; [reflexivity|].
    assert (Erl : repay_loan c s id = Done (put_loan (set_acct s a') (close_loan l i)) tt).
    { unfold repay_loan. rewrite Ho. cbn [lift obind]. rewrite Ei. cbn [lift obind]. unfold upd_acct. rewrite Ea. reflexivity. }
    assert (P : prim c s (put_loan (set_acct s a') (close_loan l i))) by (eapply PRepay; exact Erl).
    split; [|split; [reflexivity | split; [reflexivity | split; [reflexivity|]]]].
    + split; [eapply WF_prim; eauto|]. split; [eapply RI_update; [exact Hri | exact Ea]|].
      split; [eapply loans_prim; eauto|].
      unfold LA. eapply LA_loans_step; [exact Hla | eapply prim_loans; eauto].
    + intros j Hj. unfold get_loan, put_loan. cbn [set_loans set_acct s_loans]. rewrite nth_error_replace_nth.
      assert (Eid : l_id l = id) by (destruct Hw as (_ & Hl & _); apply (Hl _ _ Hg)).
      cbn [close_loan l_id]. rewrite Eid. destruct (Nat.eqb j id) eqn:E; [apply Nat.eqb_eq in E; contradiction | reflexivity].
  - right. rewrite Ee. reflexivity.
Qed.

(* the loop over the candidates never aborts *)
Lemma repay_each_done c ids : forall s done,
  RJ s -> NoDup ids ->
  (forall id, In id ids -> exists l i, open_loan s id = Ok l /\ outstanding c s l = Ok i) ->
  exists s' out, repay_each c s ids done = Done s' out /\ s_orders s' = s_orders s.
Proof.
  induction ids as [|id r IH]; intros s done Hj Hnd Hc; cbn [repay_each].
  - eexists. eexists. split; reflexivity.
  - inversion Hnd as [|? ? Hnin Hnd']; subst.
    destruct (Hc id (or_introl eq_refl)) as (l & i & Ho & Ei).
    destruct (repay_loan_outcome c s id l i Hj Ho Ei) as [(s1 & E1 & Hj1 & En & Ec & Eo & Hget)|Ef].
    + rewrite E1.
      destruct (IH s1 (done ++ [id]) Hj1 Hnd') as (s2 & out & E2 & Eo2).
      { intros j Hin. destruct (Hc j (or_intror Hin)) as (lj & ij & Hoj & Eij).
        assert (Hne : j <> id) by (intros ->; contradiction).
        exists lj, ij. split.
        - unfold open_loan in *. rewrite (Hget j Hne). exact Hoj.
        - rewrite (outstanding_frame c s s1 lj En Ec). exact Eij. }
      exists s2, out. split; [exact E2 | congruence].
    + rewrite Ef. apply IH; [exact Hj | exact Hnd' | intros j Hin; apply Hc; right; exact Hin].
Qed.

(* ---------------------------------------------------------------------------------------------- *)
(* candidates of an auto-repayment *)
Lemma nodup_ids ls : (forall i l, nth_error ls i = Some l -> l_id l = i) -> NoDup (map l_id ls).
Proof.
  intros H. apply NoDup_nth_error. intros i j Hi E. rewrite map_length in Hi.
  rewrite !nth_error_map in E.
  destruct (nth_error ls i) as [li|] eqn:Ei; [|apply nth_error_None in Ei; lia].
  destruct (nth_error ls j) as [lj|] eqn:Ej; [|discriminate E].
  cbn [option_map] in E. inversion E as [E']. rewrite (H _ _ Ei), (H _ _ Ej) in E'. exact E'.
Qed.

Lemma nodup_map_filter {A B} (f : A -> B) (p : A -> bool) l : NoDup (map f l) -> NoDup (map f (filter p l)).
Proof.
  induction l as [|a r IH]; cbn [map filter]; intros H; [constructor|].
  inversion H as [|? ? Hn Hr]; subst. destruct (p a); cbn [map]; [|apply IH; exact Hr].
  constructor; [|apply IH; exact Hr].
  intros Hin. apply Hn. apply in_map_iff in Hin. destruct Hin as (x & Ex & Hx). apply filter_In in Hx.
  apply in_map_iff. exists x. split; [exact Ex | apply Hx].
Qed.

Lemma repay_loans_done c s o :
  RJ s -> stored s o -> check_infos c s (s_loans s) = Ok tt ->
  exists s' o', repay_loans c s o = Done s' o'.
Proof.
  intros Hj Hst Hc. unfold repay_loans. rewrite Hc. cbn [lift obind].
  set (credit := match o_op o with Buy => fst (o_pair o) | Sell => snd (o_pair o) end).
  set (cands := sort_desc (filter (fun l => l_open l && Pos.eqb (l_sym l) credit) (s_loans s))).
  pose proof Hj as (Hw & _).
  assert (Hperm : Permutation (filter (fun l => l_open l && Pos.eqb (l_sym l) credit) (s_loans s)) cands)
    by apply sort_desc_perm.
  destruct (repay_each_done c (map l_id cands) s [] Hj) as (s2 & out & E2 & Eo).
  - eapply Permutation_NoDup; [apply Permutation_map; exact Hperm|].
    apply nodup_map_filter. apply nodup_ids. destruct Hw as (_ & Hl & _). exact Hl.
  - intros id Hin. apply in_map_iff in Hin. destruct Hin as (l & <- & Hl).
    apply (Permutation_in _ (Permutation_sym Hperm)) in Hl. apply filter_In in Hl. destruct Hl as [Hin Hf].
    apply andb_true_iff in Hf. destruct Hf as [Hop _].
    destruct (check_infos_ok c s _ _ Hc l Hin Hop) as [i Ei].
    exists l, i. split; [|exact Ei].
    apply In_nth_error in Hin. destruct Hin as [n Hn].
    assert (Eid : l_id l = n) by (destruct Hw as (_ & Hl' & _); apply (Hl' _ _ Hn)).
    unfold open_loan, get_loan. rewrite Eid, Hn, Hop. reflexivity.
  - rewrite E2. cbn [obind]. eexists. eexists. reflexivity.
Qed.

(* a cancellation request that fails has changed nothing: it failed for an unknown or closed order, or while pricing
   the open loans up front; once past that point the cancellation of an open order goes through *)
Theorem cancel_fail_unchanged c s id s' e :
  cancel_inv s -> loans_inv s -> LA s -> cancel_order c s id = Fail s' e -> s' = s.
Proof.
  intros (Hw & Hri & Hh & Hrn) Hli Hla H. pose proof Hri as (Hr & _ & Hnh & Hnb).
  unfold cancel_order in H. destruct (get_order s id) as [o|] eqn:Hg; [|inversion H; reflexivity].
  destruct (negb (is_open o)) eqn:Eop; [inversion H; reflexivity|]. apply negb_false_iff in Eop.
  destruct (if o_ar o && negb (Qzero (filled o)) then check_infos c s (s_loans s) else Ok tt) as [[]|e0] eqn:Epre;
    cbn [lift obind] in H; [|inversion H; reflexivity].
  exfalso.
  set (o1 := with_state o SCanceled) in *.
  assert (Eid : o_id o = id) by (destruct Hw as (Hw1 & _); destruct (Hw1 _ _ Hg); assumption).
  assert (Hg1 : get_order s (o_id o1) = Some o) by (cbn [o1 with_state o_id]; rewrite Eid; exact Hg).
  assert (W1 : WF (put_order s o1)).
  { eapply WF_put_order; [exact Hw | exact Hg1 |]. destruct Hw as (Ho & _). destruct (Ho _ _ Hg) as [_ How]. exact How. }
  (* releasing the holds succeeds *)
  assert (Ub : exists s2, update_balances c (put_order s o1) o1 [] = Done s2 tt).
  { unfold update_balances.
    assert (Eh : holds_get (s_holds (put_order s o1)) (o_id o1) = holds_get (s_holds s) id) by (rewrite <- Eid; reflexivity).
    rewrite Eh. change (is_open o1) with false. set (oh := holds_get (s_holds s) id).
    destruct (vnonempty oh) eqn:Ene; cbn [vnonempty orb].
    - assert (Ev : vnonempty (vneg oh) = true) by (destruct oh; [discriminate Ene | reflexivity]).
      rewrite Ev. unfold upd_acct.
      destruct (release_update_ok c (put_order s o1) (s_acct s) oh Hr Hnh Hnb) as [a' Ea].
      + intros x. apply res_ok_vsum. apply (Hrn id oh). apply holds_get_in. exact Ene.
      + intros x. rewrite (Hh x). unfold hsum. apply hsum_ge_entry; [exact Hrn | exact Ene].
      + change (s_acct (put_order s o1)) with (s_acct s). rewrite Ea. cbn [obind]. eexists. reflexivity.
    - cbn [obind]. eexists. reflexivity. }
  destruct Ub as [s2 E2]. unfold order_closed in H. rewrite E2 in H. cbn [obind] in H.
  change (o_ar o1) with (o_ar o) in H. change (filled o1) with (filled o) in H.
  destruct (o_ar o && negb (Qzero (filled o))) eqn:Ear; [|cbn [obind] in H; discriminate H].
  (* the state after the release still satisfies what the repayment loop needs *)
  destruct (update_balances_orders _ _ _ _ _ _ E2) as [Eo2 El2].
  destruct (update_balances_acct _ _ _ _ _ _ E2) as [Av _].
  assert (W2 : WF s2) by (eapply WF_update_balances; eauto).
  assert (Ri2 : RI (s_acct s2)).
  { pose proof E2 as E2'. apply update_balances_shape in E2'. cbn zeta in E2'. destruct E2' as (sx & Ex & ->).
    assert (Rx : RI (s_acct sx)).
    { destruct (_ || _).
      - apply upd_acct_done in Ex. destruct Ex as (a' & Ea & ->). cbn [set_acct s_acct]. eapply RI_update; [|exact Ea]. exact Hri.
      - inversion Ex; subst. exact Hri. }
    destruct (vnonempty _); [destruct (is_open o1)|]; exact Rx. }
  assert (Li2 : loans_inv s2).
  { intros x. destruct (Av x) as (_ & _ & V3). unfold lsum. rewrite El2, V3. apply (Hli x). }
  assert (La2 : LA s2) by (unfold LA; rewrite El2; exact Hla).
  assert (Fr : s_now s2 = s_now s /\ s_close s2 = s_close s).
  { pose proof E2 as E2'. apply update_balances_shape in E2'. cbn zeta in E2'. destruct E2' as (sx & Ex & ->).
    assert (Fx : s_now sx = s_now s /\ s_close sx = s_close s).
    { destruct (_ || _); [apply upd_acct_done in Ex; destruct Ex as (a' & _ & ->); split; reflexivity
                         | inversion Ex; subst; split; reflexivity]. }
    destruct (vnonempty _); [destruct (is_open o1)|]; exact Fx. }
  destruct Fr as [En2 Ec2].
  assert (Hc2 : check_infos c s2 (s_loans s2) = Ok tt).
  { rewrite El2. change (s_loans (put_order s o1)) with (s_loans s).
    rewrite (check_infos_frame c s s2 (s_loans s) En2 Ec2). exact Epre. }
  assert (Hst2 : stored s2 o1).
  { eapply stored_orders; [exact Eo2|]. eapply stored_put. exact Hg1. }
  destruct (repay_loans_done c s2 o1 (conj W2 (conj Ri2 (conj Li2 La2))) Hst2 Hc2) as (s3 & o3 & E3).
  rewrite E3 in H. cbn [obind] in H. discriminate H.
Qed.

Lemma LA_init initial : LA (init_st initial).
Proof. intros [|i] l X; discriminate X. Qed.

(* C07: in every reachable state, a cancellation request that raises has changed nothing *)
Theorem cancel_fail_unchanged_reachable c initial ops id s' e :
  cfg_ok c -> ops_ok ops -> NoDup (map fst initial) -> (forall kv, In kv initial -> 0 <= snd kv) ->
  let s := run c (init_st initial) ops in
  cancel_order c s id = Fail s' e -> s' = s.
Proof.
  intros Hc Ho Hnd Hpos s H.
  destruct (run_invariants c _ ops (init_st initial) Hc Ho (WF_init initial) (init_all_inv initial Hpos)) as [_ (_ & Hl & _)].
  destruct (run_prims c ops (init_st initial) Hc Ho (WF_init initial)) as (_ & P & _).
  eapply cancel_fail_unchanged; [apply reachable_cancel_inv; assumption | exact Hl | | exact H].
  eapply LA_prims; [apply WF_init | apply LA_init | exact P].
Qed.
