(* Execution price and trigger guarantees of the four order types (C04), all-or-nothing fills and the
   liquidity cap (C05, C08), precision of fills (C08). *)
From Coq Require Import ZArith QArith Qround Lia Lqa List Bool PArith.
From Basana Require Import Num.DecQ Num.DecQProofs Exchange.Model Exchange.AcctProofs.
Import ListNotations.
Open Scope Q_scope.

Lemma Qminq_le_l a b : Qminq a b <= a.
Proof. unfold Qminq. destruct (Qle_bool a b) eqn:E; [lra|]. apply Qle_bool_false in E. lra. Qed.
Lemma Qminq_le_r a b : Qminq a b <= b.
Proof. unfold Qminq. destruct (Qle_bool a b) eqn:E; [apply Qle_bool_iff in E; lra | lra]. Qed.
Lemma Qminq_glb a b c : c <= a -> c <= b -> c <= Qminq a b.
Proof. intros. unfold Qminq. destruct (Qle_bool a b); assumption. Qed.
Lemma Qmaxq_ge_l a b : a <= Qmaxq a b.
Proof. unfold Qmaxq. destruct (Qle_bool a b) eqn:E; [apply Qle_bool_iff in E; lra | lra]. Qed.
Lemma Qmaxq_ge_r a b : b <= Qmaxq a b.
Proof. unfold Qmaxq. destruct (Qle_bool a b) eqn:E; [lra|]. apply Qle_bool_false in E. lra. Qed.
Lemma Qmaxq_lub a b c : a <= c -> b <= c -> Qmaxq a b <= c.
Proof. intros. unfold Qmaxq. destruct (Qle_bool a b); assumption. Qed.

Definition impact_cfg_ok (c : cfg) : Prop :=
  match c_liq c with VolShare _ ip => 0 <= ip | InfLiq => True end.

(* the price impact of the volume-share model is never negative *)
Lemma price_impact_nonneg c l amount imp :
  impact_cfg_ok c -> price_impact c l amount = Ok imp -> 0 <= imp.
Proof.
  unfold impact_cfg_ok, price_impact. intros Hc H.
  destruct l as [[t u]|].
  - destruct (Qltb amount 0); [discriminate|]. destruct (Qltb (t - u) amount); [discriminate|].
    destruct (Qzero (u + amount)).
    + inversion H. apply Qle_refl.
    + inversion H. destruct (c_liq c) as [|lp ip].
      * assert (E : (u + amount) / t * ((u + amount) / t) * 0 == 0) by ring. rewrite E. apply Qle_refl.
      * assert (H0 : 0 <= ip / 100) by (unfold Qdiv; apply Qmult_le_0_compat; [exact Hc | discriminate]).
        assert (H2 : 0 <= (u + amount) / t * ((u + amount) / t)) by nra.
        apply Qmult_le_0_compat; assumption.
  - destruct (Qltb 0 amount); inversion H. apply Qle_refl.
Qed.

(* slipped_price: a buy never gets cheaper than the reference price (or the cap), a sell never dearer *)
Lemma slipped_buy c l price amount hi p :
  impact_cfg_ok c -> 0 <= price ->
  slipped c l price Buy amount None (Some hi) = Ok p -> p <= hi /\ Qminq price hi <= p.
Proof.
  unfold slipped. intros Hc Hp H. destruct (price_impact c l amount) as [imp|] eqn:E; cbn [rbind] in H; [|discriminate].
  pose proof (price_impact_nonneg c l amount imp Hc E) as Hi. inversion H; subst.
  split; [apply Qminq_le_r|].
  apply Qminq_glb; [|apply Qminq_le_r].
  pose proof (Qminq_le_l price hi). nra.
Qed.

Lemma slipped_sell c l price amount lo p :
  impact_cfg_ok c -> 0 <= price ->
  slipped c l price Sell amount (Some lo) None = Ok p -> lo <= p /\ p <= Qmaxq price lo.
Proof.
  unfold slipped. intros Hc Hp H. destruct (price_impact c l amount) as [imp|] eqn:E; cbn [rbind] in H; [|discriminate].
  pose proof (price_impact_nonneg c l amount imp Hc E) as Hi. inversion H; subst.
  split; [apply Qmaxq_ge_r|].
  apply Qmaxq_lub; [|apply Qmaxq_ge_r].
  pose proof (Qmaxq_ge_l price lo). nra.
Qed.

Definition bar_ok (b : bar) : Prop :=
  b_low b <= b_open b /\ b_open b <= b_high b /\ b_low b <= b_close b /\ b_close b <= b_high b /\ 0 < b_low b.

(* ---------------------------------------------------------------------------------------------- *)
(* limit orders (and stop-limit orders after the stop was hit) *)

Theorem limit_updates_buy c l o b lp bv qv :
  impact_cfg_ok c -> bar_ok b -> o_op o = Buy ->
  limit_updates c l o b lp = Ok (Some (bv, qv)) ->
  exists price, bv == min_avail (pending o) l /\ qv == - (price * bv) /\
                price <= lp /\ b_low b <= lp /\ b_low b <= price.
Proof.
  intros Hc (Hlo & Hoh & _ & _ & Hpos) Hop H. unfold limit_updates in H. rewrite Hop in H.
  destruct (Qzero (min_avail (pending o) l)); [discriminate|].
  destruct (Qltb (b_open b) lp) eqn:E1.
  - apply Qltb_true in E1.
    destruct (slipped c l (b_open b) Buy (min_avail (pending o) l) None (Some lp)) as [p|] eqn:Es;
      cbn [rbind] in H; [|discriminate].
    assert (Hop0 : 0 <= b_open b) by lra.
    destruct (slipped_buy c l _ _ _ _ Hc Hop0 Es) as [Hple Hpge].
    unfold mk_updates in H. destruct (Qzero _ || Qzero p); [discriminate|].
    inversion H; subst. rewrite Hop. cbn [sign_of]. exists p.
    assert (Hm : Qminq (b_open b) lp == b_open b).
    { unfold Qminq. destruct (Qle_bool (b_open b) lp) eqn:E; [reflexivity|]. apply Qle_bool_false in E. lra. }
    split; [ring|]. split; [ring|]. repeat split; lra.
  - apply Qltb_false in E1. destruct (Qle_bool (b_low b) lp) eqn:E2; cbn [rbind] in H.
    + apply Qle_bool_iff in E2. unfold mk_updates in H. destruct (Qzero _ || Qzero lp); [discriminate|].
      inversion H; subst. rewrite Hop. cbn [sign_of]. exists lp. split; [ring|]. split; [ring|]. repeat split; lra.
    + unfold mk_updates in H. discriminate.
Qed.

Theorem limit_updates_sell c l o b lp bv qv :
  impact_cfg_ok c -> bar_ok b -> o_op o = Sell ->
  limit_updates c l o b lp = Ok (Some (bv, qv)) ->
  exists price, - bv == min_avail (pending o) l /\ qv == price * - bv /\
                lp <= price /\ lp <= b_high b /\ price <= b_high b.
Proof.
  intros Hc (Hlo & Hoh & _ & _ & Hpos) Hop H. unfold limit_updates in H. rewrite Hop in H.
  destruct (Qzero (min_avail (pending o) l)); [discriminate|].
  destruct (Qltb lp (b_open b)) eqn:E1.
  - apply Qltb_true in E1.
    destruct (slipped c l (b_open b) Sell (min_avail (pending o) l) (Some lp) None) as [p|] eqn:Es;
      cbn [rbind] in H; [|discriminate].
    assert (Hop0 : 0 <= b_open b) by lra.
    destruct (slipped_sell c l _ _ _ _ Hc Hop0 Es) as [Hpge Hple].
    unfold mk_updates in H. destruct (Qzero _ || Qzero p); [discriminate|].
    inversion H; subst. rewrite Hop. cbn [sign_of]. exists p.
    assert (Hm : Qmaxq (b_open b) lp == b_open b).
    { unfold Qmaxq. destruct (Qle_bool (b_open b) lp) eqn:E; [apply Qle_bool_iff in E; lra | reflexivity]. }
    split; [ring|]. split; [ring|]. repeat split; lra.
  - apply Qltb_false in E1. destruct (Qle_bool lp (b_high b)) eqn:E2; cbn [rbind] in H.
    + apply Qle_bool_iff in E2. unfold mk_updates in H. destruct (Qzero _ || Qzero lp); [discriminate|].
      inversion H; subst. rewrite Hop. cbn [sign_of]. exists lp. split; [ring|]. split; [ring|]. repeat split; lra.
    + unfold mk_updates in H. discriminate.
Qed.

(* ---------------------------------------------------------------------------------------------- *)
(* rounding: truncating the base amount re-prices the quote amount, so the price survives rounding up to
   half a unit of the quote precision *)

Lemma round_bu_some bp qp bv qv b' q' :
  round_bu (bp, qp) (Some bv) (Some qv) = (Some b', Some q') ->
  b' = qtrunc bp bv /\ Qzero (qtrunc bp bv) = false /\
  q' = qround qp (if negb (Qeq_bool (qtrunc bp bv) bv) && negb (Qzero qv) then qv * qtrunc bp bv / bv else qv).
Proof.
  unfold round_bu, prune. intros H.
  destruct (Qzero (qtrunc bp bv)) eqn:Et; [inversion H|].
  destruct (negb (Qeq_bool (qtrunc bp bv) bv) && negb (Qzero qv)) eqn:Ec; cbn [option_map] in H.
  - destruct (Qzero (qround qp (qv * qtrunc bp bv / bv))) eqn:Eq; [inversion H|].
    inversion H. repeat split; reflexivity.
  - destruct (Qzero (qround qp qv)) eqn:Eq; [inversion H|].
    inversion H. repeat split; reflexivity.
Qed.

Theorem round_bu_keeps_price pi bv qv price b' q' :
  0 < bv -> qv == - (price * bv) ->
  round_bu pi (Some bv) (Some qv) = (Some b', Some q') ->
  0 < b' /\ b' <= bv /\ on_grid (fst pi) b' /\ on_grid (snd pi) q' /\
  - q' <= price * b' + half_unit (snd pi) /\ price * b' - half_unit (snd pi) <= - q'.
Proof.
  intros Hb Hq H. destruct pi as [bp qp]. apply round_bu_some in H. destruct H as (Eb & Et & Eq).
  set (t := qtrunc bp bv) in *.
  destruct (qtrunc_nonneg bp bv (Qlt_le_weak _ _ Hb)) as [Ht0 Htb]. fold t in Ht0, Htb.
  set (q1 := if negb (Qeq_bool t bv) && negb (Qzero qv) then qv * t / bv else qv) in *.
  assert (Hq1 : q1 == - (price * t)).
  { unfold q1. destruct (Qeq_bool t bv) eqn:E1; cbn [negb andb].
    - apply Qeq_bool_iff in E1. rewrite Hq, E1. reflexivity.
    - destruct (Qzero qv) eqn:E2; cbn [negb].
      + apply Qeq_bool_iff in E2. rewrite E2 in Hq. 
        assert (Hpb : price * bv == 0) by lra. assert (Hp0 : price == 0) by nra. rewrite E2, Hp0. ring.
      + rewrite Hq. field. lra. }
  subst b' q'. cbn [fst snd].
  assert (Htpos : 0 < t).
  { destruct (Qlt_le_dec 0 t) as [X|X]; [exact X|]. assert (E : t == 0) by lra.
    apply Qeq_bool_iff in E. unfold Qzero in Et. congruence. }
  destruct (qround_err qp q1) as [E1 E2].
  split; [exact Htpos|]. split; [exact Htb|]. split; [apply qtrunc_on_grid|]. split; [apply qround_on_grid|].
  split; lra.
Qed.

Theorem round_bu_keeps_price_sell pi bv qv price b' q' :
  bv < 0 -> qv == price * - bv ->
  round_bu pi (Some bv) (Some qv) = (Some b', Some q') ->
  b' < 0 /\ bv <= b' /\ on_grid (fst pi) b' /\ on_grid (snd pi) q' /\
  q' <= price * - b' + half_unit (snd pi) /\ price * - b' - half_unit (snd pi) <= q'.
Proof.
  intros Hb Hq H. destruct pi as [bp qp]. apply round_bu_some in H. destruct H as (Eb & Et & Eq).
  set (t := qtrunc bp bv) in *.
  destruct (qtrunc_nonpos bp bv (Qlt_le_weak _ _ Hb)) as [Htb Ht0]. fold t in Ht0, Htb.
  set (q1 := if negb (Qeq_bool t bv) && negb (Qzero qv) then qv * t / bv else qv) in *.
  assert (Hq1 : q1 == price * - t).
  { unfold q1. destruct (Qeq_bool t bv) eqn:E1; cbn [negb andb].
    - apply Qeq_bool_iff in E1. rewrite Hq, E1. reflexivity.
    - destruct (Qzero qv) eqn:E2; cbn [negb].
      + apply Qeq_bool_iff in E2. rewrite E2 in Hq.
        assert (Hpb : price * bv == 0) by lra. assert (Hp0 : price == 0) by nra. rewrite E2, Hp0. ring.
      + rewrite Hq. field. lra. }
  subst b' q'. cbn [fst snd].
  assert (Htneg : t < 0).
  { destruct (Qlt_le_dec t 0) as [X|X]; [exact X|]. assert (E : t == 0) by lra.
    apply Qeq_bool_iff in E. unfold Qzero in Et. congruence. }
  destruct (qround_err qp q1) as [E1 E2].
  split; [exact Htneg|]. split; [exact Htb|]. split; [apply qtrunc_on_grid|]. split; [apply qround_on_grid|].
  split; lra.
Qed.

(* A limit buy is never filled above its limit (up to half a unit of quote precision from rounding), and only by a
   bar whose range reaches the limit; whatever the liquidity model, the partial amount and the precisions. *)
Theorem limit_buy_guarantee c l o b lp bv qv pi b' q' :
  impact_cfg_ok c -> bar_ok b -> o_op o = Buy -> 0 < bv ->
  limit_updates c l o b lp = Ok (Some (bv, qv)) ->
  round_bu pi (Some bv) (Some qv) = (Some b', Some q') ->
  0 < b' /\ - q' <= lp * b' + half_unit (snd pi) /\ b_low b <= lp /\
  b_low b * b' - half_unit (snd pi) <= - q'.
Proof.
  intros Hc Hb Hop Hpos Hl Hr.
  destruct (limit_updates_buy c l o b lp bv qv Hc Hb Hop Hl) as (price & _ & Hq & Hple & Hreach & Hpge).
  destruct (round_bu_keeps_price pi bv qv price b' q' Hpos Hq Hr) as (Hb' & _ & _ & _ & H1 & H2).
  split; [exact Hb'|]. split; [nra|]. split; [exact Hreach|]. nra.
Qed.

Theorem limit_sell_guarantee c l o b lp bv qv pi b' q' :
  impact_cfg_ok c -> bar_ok b -> o_op o = Sell -> bv < 0 ->
  limit_updates c l o b lp = Ok (Some (bv, qv)) ->
  round_bu pi (Some bv) (Some qv) = (Some b', Some q') ->
  b' < 0 /\ lp * - b' - half_unit (snd pi) <= q' /\ lp <= b_high b /\
  q' <= b_high b * - b' + half_unit (snd pi).
Proof.
  intros Hc Hb Hop Hneg Hl Hr.
  destruct (limit_updates_sell c l o b lp bv qv Hc Hb Hop Hl) as (price & _ & Hq & Hple & Hreach & Hpge).
  destruct (round_bu_keeps_price_sell pi bv qv price b' q' Hneg Hq Hr) as (Hb' & _ & _ & _ & H1 & H2).
  split; [exact Hb'|]. split; [nra|]. split; [exact Hreach|]. nra.
Qed.

(* ---------------------------------------------------------------------------------------------- *)
(* market and stop orders: all or nothing, inside the bar's range, never better than open / stop *)

Theorem market_updates c l o b bv qv h :
  impact_cfg_ok c -> bar_ok b -> o_kind o = KMarket ->
  balance_updates c l o b = Ok (Some (bv, qv), h) ->
  gt_avail (pending o) l = false /\
  exists price, bv == pending o * sign_of (o_op o) /\ qv == price * pending o * - sign_of (o_op o) /\
    b_low b <= price /\ price <= b_high b /\
    (o_op o = Buy -> b_open b <= price) /\ (o_op o = Sell -> price <= b_open b).
Proof.
  intros Hc (Hlo & Hoh & _ & _ & Hpos) Hk H. unfold balance_updates in H. rewrite Hk in H.
  destruct (gt_avail (pending o) l) eqn:Eg; [discriminate H|]. split; [reflexivity|].
  assert (Hop0 : 0 <= b_open b) by lra.
  destruct (o_op o) eqn:Eop.
  - destruct (slipped c l (b_open b) Buy (pending o) None (Some (b_high b))) as [p|] eqn:Es; cbn [rbind] in H;
      [|discriminate H].
    destruct (slipped_buy _ _ _ _ _ _ Hc Hop0 Es) as [H1 H2]. inversion H; subst. exists p.
    assert (Hm : Qminq (b_open b) (b_high b) == b_open b).
    { unfold Qminq. destruct (Qle_bool (b_open b) (b_high b)) eqn:E; [reflexivity|]. apply Qle_bool_false in E. lra. }
    split; [reflexivity|]. split; [reflexivity|]. repeat split; try lra; intros; try discriminate; lra.
  - destruct (slipped c l (b_open b) Sell (pending o) (Some (b_low b)) None) as [p|] eqn:Es; cbn [rbind] in H;
      [|discriminate H].
    destruct (slipped_sell _ _ _ _ _ _ Hc Hop0 Es) as [H1 H2]. inversion H; subst. exists p.
    assert (Hm : Qmaxq (b_open b) (b_low b) == b_open b).
    { unfold Qmaxq. destruct (Qle_bool (b_open b) (b_low b)) eqn:E; [apply Qle_bool_iff in E; lra | reflexivity]. }
    split; [reflexivity|]. split; [reflexivity|]. repeat split; try lra; intros; try discriminate; lra.
Qed.

Theorem stop_updates c l o b sp bv qv h :
  impact_cfg_ok c -> bar_ok b -> o_kind o = KStop sp -> 0 < sp ->
  balance_updates c l o b = Ok (Some (bv, qv), h) ->
  gt_avail (pending o) l = false /\
  exists price, bv == pending o * sign_of (o_op o) /\ qv == price * pending o * - sign_of (o_op o) /\
    b_low b <= price /\ price <= b_high b /\
    (o_op o = Buy -> sp <= price /\ sp <= b_high b) /\ (o_op o = Sell -> price <= sp /\ b_low b <= sp).
Proof.
  intros Hc (Hlo & Hoh & _ & _ & Hpos) Hk Hsp H. unfold balance_updates in H. rewrite Hk in H.
  destruct (gt_avail (pending o) l) eqn:Eg; [discriminate H|]. split; [reflexivity|].
  destruct (o_op o) eqn:Eop.
  - destruct (Qle_bool sp (b_open b)) eqn:E1.
    + apply Qle_bool_iff in E1. destruct (Qzero (b_open b)); [discriminate H|].
      destruct (slipped c l (b_open b) Buy (pending o) None (Some (b_high b))) as [p|] eqn:Es; cbn [rbind] in H;
        [|discriminate H].
      assert (Hop0 : 0 <= b_open b) by lra.
      destruct (slipped_buy _ _ _ _ _ _ Hc Hop0 Es) as [H1 H2].
      destruct (Qzero p); [discriminate H|]. inversion H; subst. exists p.
      assert (Hm : Qminq (b_open b) (b_high b) == b_open b).
      { unfold Qminq. destruct (Qle_bool (b_open b) (b_high b)) eqn:E; [reflexivity|]. apply Qle_bool_false in E. lra. }
      split; [reflexivity|]. split; [reflexivity|]. repeat split; try lra; intros; try discriminate; lra.
    + apply Qle_bool_false in E1. destruct (Qle_bool sp (b_high b)) eqn:E2; [|discriminate H].
      apply Qle_bool_iff in E2. destruct (Qzero sp); [discriminate H|].
      destruct (slipped c l sp Buy (pending o) None (Some (b_high b))) as [p|] eqn:Es; cbn [rbind] in H;
        [|discriminate H].
      assert (Hsp0 : 0 <= sp) by lra.
      destruct (slipped_buy _ _ _ _ _ _ Hc Hsp0 Es) as [H1 H2].
      destruct (Qzero p); [discriminate H|]. inversion H; subst. exists p.
      assert (Hm : Qminq sp (b_high b) == sp).
      { unfold Qminq. destruct (Qle_bool sp (b_high b)) eqn:E; [reflexivity|]. apply Qle_bool_false in E. lra. }
      split; [reflexivity|]. split; [reflexivity|]. repeat split; try lra; intros; try discriminate; lra.
  - destruct (Qle_bool (b_open b) sp) eqn:E1.
    + apply Qle_bool_iff in E1. destruct (Qzero (b_open b)); [discriminate H|].
      destruct (slipped c l (b_open b) Sell (pending o) (Some (b_low b)) None) as [p|] eqn:Es; cbn [rbind] in H;
        [|discriminate H].
      assert (Hop0 : 0 <= b_open b) by lra.
      destruct (slipped_sell _ _ _ _ _ _ Hc Hop0 Es) as [H1 H2].
      destruct (Qzero p); [discriminate H|]. inversion H; subst. exists p.
      assert (Hm : Qmaxq (b_open b) (b_low b) == b_open b).
      { unfold Qmaxq. destruct (Qle_bool (b_open b) (b_low b)) eqn:E; [apply Qle_bool_iff in E; lra | reflexivity]. }
      split; [reflexivity|]. split; [reflexivity|]. repeat split; try lra; intros; try discriminate; lra.
    + apply Qle_bool_false in E1. destruct (Qle_bool (b_low b) sp) eqn:E2; [|discriminate H].
      apply Qle_bool_iff in E2. destruct (Qzero sp); [discriminate H|].
      destruct (slipped c l sp Sell (pending o) (Some (b_low b)) None) as [p|] eqn:Es; cbn [rbind] in H;
        [|discriminate H].
      assert (Hsp0 : 0 <= sp) by lra.
      destruct (slipped_sell _ _ _ _ _ _ Hc Hsp0 Es) as [H1 H2].
      destruct (Qzero p); [discriminate H|]. inversion H; subst. exists p.
      assert (Hm : Qmaxq sp (b_low b) == sp).
      { unfold Qmaxq. destruct (Qle_bool sp (b_low b)) eqn:E; [apply Qle_bool_iff in E; lra | reflexivity]. }
      split; [reflexivity|]. split; [reflexivity|]. repeat split; try lra; intros; try discriminate; lra.
Qed.

(* a stop-limit order does nothing, and its latch stays off, while no bar reaches its stop price *)
Theorem stoplimit_not_before_trigger c l o b sp lp :
  o_kind o = KStopLimit sp lp -> o_hit o = false -> bar_ok b ->
  (o_op o = Buy -> b_high b < sp) -> (o_op o = Sell -> sp < b_low b) ->
  balance_updates c l o b = Ok (None, false).
Proof.
  intros Hk Hh (Hlo & Hoh & _ & _ & Hpos) Hb Hs. unfold balance_updates. rewrite Hk, Hh.
  destruct (o_op o) eqn:Eop.
  - specialize (Hb eq_refl).
    assert (E1 : Qle_bool sp (b_open b) = false).
    { destruct (Qle_bool sp (b_open b)) eqn:E; [apply Qle_bool_iff in E; lra | reflexivity]. }
    assert (E2 : Qle_bool sp (b_high b) = false).
    { destruct (Qle_bool sp (b_high b)) eqn:E; [apply Qle_bool_iff in E; lra | reflexivity]. }
    rewrite E1, E2. cbn [rbind]. unfold mk_updates. reflexivity.
  - specialize (Hs eq_refl).
    assert (E1 : Qle_bool (b_open b) sp = false).
    { destruct (Qle_bool (b_open b) sp) eqn:E; [apply Qle_bool_iff in E; lra | reflexivity]. }
    assert (E2 : Qle_bool (b_low b) sp = false).
    { destruct (Qle_bool (b_low b) sp) eqn:E; [apply Qle_bool_iff in E; lra | reflexivity]. }
    rewrite E1, E2. cbn [rbind]. unfold mk_updates. reflexivity.
Qed.

(* a stop order does not trade in a bar that does not reach its stop price *)
Theorem stop_not_before_trigger c l o b sp :
  o_kind o = KStop sp -> bar_ok b ->
  (o_op o = Buy -> b_high b < sp) -> (o_op o = Sell -> sp < b_low b) ->
  exists h, balance_updates c l o b = Ok (None, h).
Proof.
  intros Hk (Hlo & Hoh & _ & _ & Hpos) Hb Hs. unfold balance_updates. rewrite Hk.
  destruct (gt_avail (pending o) l); [eexists; reflexivity|].
  destruct (o_op o) eqn:Eop.
  - specialize (Hb eq_refl).
    assert (E1 : Qle_bool sp (b_open b) = false).
    { destruct (Qle_bool sp (b_open b)) eqn:E; [apply Qle_bool_iff in E; lra | reflexivity]. }
    assert (E2 : Qle_bool sp (b_high b) = false).
    { destruct (Qle_bool sp (b_high b)) eqn:E; [apply Qle_bool_iff in E; lra | reflexivity]. }
    rewrite E1, E2. eexists; reflexivity.
  - specialize (Hs eq_refl).
    assert (E1 : Qle_bool (b_open b) sp = false).
    { destruct (Qle_bool (b_open b) sp) eqn:E; [apply Qle_bool_iff in E; lra | reflexivity]. }
    assert (E2 : Qle_bool (b_low b) sp = false).
    { destruct (Qle_bool (b_low b) sp) eqn:E; [apply Qle_bool_iff in E; lra | reflexivity]. }
    rewrite E1, E2. eexists; reflexivity.
Qed.

(* ---------------------------------------------------------------------------------------------- *)
(* liquidity: what is taken never exceeds what the bar grants *)

Definition liq_ok (l : liq) : Prop := match l with None => True | Some (t, u) => 0 <= u /\ u <= t end.

Theorem take_liquidity_ok l amount l' :
  liq_ok l -> 0 <= amount -> take_liquidity l amount = Ok l' ->
  liq_ok l' /\ match l, l' with
               | Some (t, u), Some (t', u') => t' = t /\ u' == u + amount
               | None, None => True
               | _, _ => False
               end.
Proof.
  intros Hl Ha H. destruct l as [[t u]|]; cbn [take_liquidity] in H.
  - destruct (Qltb (t - u) amount) eqn:E; [discriminate H|]. apply Qltb_false in E.
    assert (El : l' = Some (t, Qred (u + amount))) by congruence. subst l'. clear H.
    unfold liq_ok in *. pose proof (Qred_correct (u + amount)) as Er.
    split; [split; lra|]. split; [reflexivity | exact Er].
  - destruct (Qltb 0 amount); inversion H; subst. split; exact I.
Qed.

(* partial fills of limit orders never exceed what is left *)
Lemma min_avail_le l x t u : l = Some (t, u) -> min_avail x l <= t - u.
Proof. intros E. subst. unfold min_avail, liq_avail. apply Qminq_le_r. Qed.

Lemma gt_avail_false_le l x t u : l = Some (t, u) -> gt_avail x l = false -> x <= t - u.
Proof. intros E H. subst. unfold gt_avail, liq_avail in H. apply Qltb_false in H. exact H. Qed.
