(* decimal.Decimal -> text.  A finite Decimal is (sign, coefficient digits most significant first, exponent).
   fmt_f is format(d, "f") (what decimal_to_str in both clients does after a7974de); py_str is str(d), which switches
   to scientific notation when exponent > 0 or adjusted exponent < -6.  Text is modelled as (negative?, integer
   digits, fraction digits); the rendering to characters is checked by the correspondence harness. *)
From Coq Require Import ZArith QArith List Bool Lia.
Import ListNotations.

Record dec := mkDec { d_neg : bool; d_digits : list nat; d_exp : Z }.

Fixpoint num_of (ds : list nat) (acc : Z) : Z :=
  match ds with [] => acc | d :: r => num_of r (acc * 10 + Z.of_nat d) end.
Definition num (ds : list nat) : Z := num_of ds 0.

Definition pow10q (e : Z) : Q := if Z.leb 0 e then inject_Z (10 ^ e) else / inject_Z (10 ^ (- e)).
Definition value (d : dec) : Q :=
  (if d_neg d then -1 else 1) * inject_Z (num (d_digits d)) * pow10q (d_exp d).

(* fixed-point text: sign, integer digits, fraction digits *)
Record fixed := mkFixed { f_neg : bool; f_int : list nat; f_frac : list nat }.

Definition fmt_f (d : dec) : fixed :=
  let ds := d_digits d in
  let n := Z.of_nat (length ds) in
  if Z.leb 0 (d_exp d) then mkFixed (d_neg d) (ds ++ repeat 0%nat (Z.to_nat (d_exp d))) []
  else
    let k := (- d_exp d)%Z in                     (* number of fraction digits *)
    if Z.ltb k n then mkFixed (d_neg d) (firstn (Z.to_nat (n - k)) ds) (skipn (Z.to_nat (n - k)) ds)
    else mkFixed (d_neg d) [0%nat] (repeat 0%nat (Z.to_nat (k - n)) ++ ds).

(* the numeral a server parses back *)
Definition fixed_value (f : fixed) : Q :=
  (if f_neg f then -1 else 1) *
  (inject_Z (num (f_int f)) + inject_Z (num (f_frac f)) / inject_Z (10 ^ Z.of_nat (length (f_frac f)))).

(* str(d): scientific notation? *)
Definition adjusted (d : dec) : Z := (d_exp d + Z.of_nat (length (d_digits d)) - 1)%Z.
Definition py_str_is_scientific (d : dec) : bool := Z.ltb 0 (d_exp d) || Z.ltb (adjusted d) (-6).

Definition digits_ok (ds : list nat) : bool := forallb (fun d => Nat.ltb d 10) ds.
