(* Decoding: millisecond / microsecond timestamps (integer model of helpers.timestamp_to_datetime and of the Bitstamp
   microtimestamp decoding) and the status / side tables regenerated from the source (gen/Tables.v). *)
From Coq Require Import ZArith List String Bool Lia.
From BasanaGen Require Import Tables.
Import ListNotations.
Open Scope Z_scope.

(* a UTC datetime as (seconds since the epoch, microseconds) *)
Definition of_ms (ts : Z) : Z * Z := (ts / 1000, (ts mod 1000) * 1000).
Definition of_us (ts : Z) : Z * Z := (ts / 1000000, ts mod 1000000).
Definition to_ms (d : Z * Z) : Z := fst d * 1000 + snd d / 1000.
Definition to_us (d : Z * Z) : Z := fst d * 1000000 + snd d.

Theorem ms_roundtrip ts : to_ms (of_ms ts) = ts.
Proof.
  unfold to_ms, of_ms. cbn [fst snd]. rewrite Z.div_mul by lia.
  pose proof (Z.div_mod ts 1000 ltac:(lia)). lia.
Qed.
Theorem us_roundtrip ts : to_us (of_us ts) = ts.
Proof. unfold to_us, of_us. cbn [fst snd]. pose proof (Z.div_mod ts 1000000 ltac:(lia)). lia. Qed.
Theorem of_ms_wellformed ts : 0 <= snd (of_ms ts) < 1000000.
Proof. unfold of_ms. cbn [snd]. pose proof (Z.mod_pos_bound ts 1000 ltac:(lia)). lia. Qed.
Theorem of_us_wellformed ts : 0 <= snd (of_us ts) < 1000000.
Proof. unfold of_us. cbn [snd]. apply Z.mod_pos_bound. lia. Qed.

(* table lookups *)
Open Scope string_scope.
Fixpoint lookup (t : list (string * string)) (k : string) : option string :=
  match t with [] => None | (a, b) :: r => if String.eqb a k then Some b else lookup r k end.

(* the documented Binance order statuses and whether an order in that status is still open *)
Definition documented_order_status : list (string * string) :=
  [("NEW", "true"); ("PARTIALLY_FILLED", "true"); ("FILLED", "false"); ("CANCELED", "false");
   ("PENDING_CANCEL", "true"); ("REJECTED", "false"); ("EXPIRED", "false")].
Definition documented_oco_status : list (string * string) :=
  [("EXECUTING", "true"); ("ALL_DONE", "false"); ("REJECT", "false")].

Theorem order_status_table_correct :
  forallb (fun kv => match lookup binance_order_status_is_open (fst kv) with
                     | Some v => String.eqb v (snd kv) | None => false end) documented_order_status = true.
Proof. vm_compute. reflexivity. Qed.
Theorem oco_status_table_correct :
  forallb (fun kv => match lookup binance_oco_status_is_open (fst kv) with
                     | Some v => String.eqb v (snd kv) | None => false end) documented_oco_status = true.
Proof. vm_compute. reflexivity. Qed.
(* operation <-> side are inverse, and Bitstamp's order type 0 / 1 is buy / sell *)
Theorem side_tables_inverse :
  forallb (fun kv => match lookup binance_side_to_operation (snd kv) with
                     | Some v => String.eqb v (fst kv) | None => false end) binance_operation_to_side = true /\
  lookup binance_operation_to_side "BUY" = Some "BUY" /\ lookup binance_operation_to_side "SELL" = Some "SELL" /\
  lookup bitstamp_order_type_to_operation "0" = Some "BUY" /\ lookup bitstamp_order_type_to_operation "1" = Some "SELL".
Proof. vm_compute. repeat split; reflexivity. Qed.
