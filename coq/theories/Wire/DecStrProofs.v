From Coq Require Import ZArith QArith List Bool Lia Lqa.
From Basana Require Import Wire.DecStr.
Import ListNotations.

Lemma num_of_app a b acc : num_of (a ++ b) acc = num_of b (num_of a acc).
Proof. revert acc. induction a as [|x r IH]; intros acc; cbn [app num_of]; [reflexivity | apply IH]. Qed.

Lemma num_of_shift ds : forall acc, num_of ds acc = (acc * 10 ^ Z.of_nat (length ds) + num_of ds 0)%Z.
Proof.
  induction ds as [|d r IH]; intros acc; cbn [num_of length].
  - cbn. lia.
  - rewrite (IH (acc * 10 + Z.of_nat d)%Z), (IH (0 * 10 + Z.of_nat d)%Z).
    rewrite Nat2Z.inj_succ, Z.pow_succ_r by lia. lia.
Qed.

Lemma num_app a b : num (a ++ b) = (num a * 10 ^ Z.of_nat (length b) + num b)%Z.
Proof. unfold num. rewrite num_of_app, num_of_shift. reflexivity. Qed.

Lemma num_repeat0 k : num (repeat 0%nat k) = 0%Z.
Proof. unfold num. induction k as [|k IH]; cbn [repeat num_of]; [reflexivity | exact IH]. Qed.

Lemma repeat_length' {A} (x : A) k : length (repeat x k) = k.
Proof. apply repeat_length. Qed.

Lemma pow_pos_q e : (0 <= e)%Z -> 0 < inject_Z (10 ^ e).
Proof. intros H. change 0 with (inject_Z 0). rewrite <- Zlt_Qlt. apply Z.pow_pos_nonneg; lia. Qed.

(* the fixed-point text denotes exactly the decimal's value: for every sign, every coefficient and every exponent *)
Theorem fmt_f_value d : fixed_value (fmt_f d) == value d.
Proof.
  destruct d as [neg ds e]. unfold fmt_f, value, fixed_value, pow10q. cbn [d_neg d_digits d_exp].
  destruct (Z.leb 0 e) eqn:Ee.
  - apply Z.leb_le in Ee. cbn [f_neg f_int f_frac length].
    rewrite num_app, num_repeat0, repeat_length', Z2Nat.id by lia.
    change (num []) with 0%Z. cbn [Z.of_nat]. rewrite Z.add_0_r, inject_Z_mult.
    change (inject_Z (10 ^ 0)) with 1. change (inject_Z 0) with 0. field.
  - apply Z.leb_gt in Ee.
    set (n := Z.of_nat (length ds)).
    destruct (Z.ltb (- e) n) eqn:Ek.
    + apply Z.ltb_lt in Ek. cbn [f_neg f_int f_frac].
      assert (Hlen : length (skipn (Z.to_nat (n - - e)) ds) = Z.to_nat (- e)).
      { rewrite skipn_length. unfold n. lia. }
      rewrite Hlen, Z2Nat.id by lia.
      pose proof (firstn_skipn (Z.to_nat (n - - e)) ds) as Hsplit.
      assert (Hnum : num ds = (num (firstn (Z.to_nat (n - - e)) ds) * 10 ^ (- e) + num (skipn (Z.to_nat (n - - e)) ds))%Z).
      { rewrite <- Hsplit at 1. rewrite num_app, Hlen, Z2Nat.id by lia. reflexivity. }
      rewrite Hnum, inject_Z_plus, inject_Z_mult.
      pose proof (pow_pos_q (- e) ltac:(lia)) as Hp. field. lra.
    + apply Z.ltb_ge in Ek. cbn [f_neg f_int f_frac].
      rewrite app_length, repeat_length', num_app, num_repeat0.
      change (num [0%nat]) with 0%Z. change (inject_Z 0) with 0.
      assert (Hl : Z.of_nat (Z.to_nat (- e - n) + length ds) = (- e)%Z) by (unfold n; lia).
      rewrite Hl. rewrite Z.mul_0_l, Z.add_0_l.
      pose proof (pow_pos_q (- e) ltac:(lia)) as Hp. field. lra.
Qed.

(* str() is plain exactly when the exponent is not positive and the adjusted exponent is at least -6; so for instance
   8.5E-7 and 1E+3 are written in scientific notation by str() (the defect fixed by a7974de), never by fmt_f *)
Theorem py_str_plain_iff d :
  py_str_is_scientific d = false <-> (d_exp d <= 0 /\ -6 <= adjusted d)%Z.
Proof.
  unfold py_str_is_scientific. split.
  - intros H. apply orb_false_iff in H. destruct H as [H1 H2]. apply Z.ltb_ge in H1, H2. lia.
  - intros [H1 H2]. apply orb_false_iff. split; apply Z.ltb_ge; lia.
Qed.

(* the fixed-point text has a fraction part of exactly -exponent digits (none for a non-negative exponent), and
   every character is a decimal digit when the coefficient's are: no exponent marker can appear *)
Theorem fmt_f_shape d :
  digits_ok (d_digits d) = true ->
  digits_ok (f_int (fmt_f d)) = true /\ digits_ok (f_frac (fmt_f d)) = true /\
  length (f_frac (fmt_f d)) = Z.to_nat (- d_exp d) /\ f_int (fmt_f d) <> [] \/ d_digits d = [] .
Proof.
  destruct d as [neg ds e]. unfold fmt_f. cbn [d_neg d_digits d_exp]. intros Hd.
  destruct ds as [|d0 ds']; [right; reflexivity|]. left.
  set (ds := d0 :: ds') in *.
  assert (Hrep : forall k, digits_ok (repeat 0%nat k) = true).
  { induction k as [|k IH]; [reflexivity | cbn [repeat digits_ok forallb]; exact IH]. }
  unfold digits_ok in *.
  destruct (Z.leb 0 e) eqn:Ee.
  - apply Z.leb_le in Ee. cbn [f_int f_frac]. rewrite forallb_app, Hd, (Hrep _). repeat split; try reflexivity.
    + cbn [length]. lia.
    + unfold ds. discriminate.
  - apply Z.leb_gt in Ee. destruct (Z.ltb (- e) (Z.of_nat (length ds))) eqn:Ek.
    + apply Z.ltb_lt in Ek. cbn [f_int f_frac].
      rewrite <- (firstn_skipn (Z.to_nat (Z.of_nat (length ds) - - e)) ds) in Hd. rewrite forallb_app in Hd.
      apply andb_prop in Hd. destruct Hd as [H1 H2]. repeat split; try assumption.
      * rewrite skipn_length. lia.
      * intros E. assert (length (firstn (Z.to_nat (Z.of_nat (length ds) - - e)) ds) = 0%nat) by (rewrite E; reflexivity).
        rewrite firstn_length in H. lia.
    + apply Z.ltb_ge in Ek. cbn [f_int f_frac]. rewrite forallb_app, (Hrep _), Hd. repeat split; try reflexivity.
      * rewrite app_length, repeat_length'. lia.
      * discriminate.
Qed.
