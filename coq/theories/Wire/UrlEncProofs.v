From Coq Require Import NArith List Bool Lia.
From Basana Require Import Wire.UrlEnc.
Import ListNotations.
Open Scope N_scope.

(* a quoted byte never produces '&', '=', '%XX' ambiguity: its characters are unreserved, '+' or a well-formed escape *)
Lemma hex_digit_unhex n : n < 16 -> unhex (hex_digit n) = Some n.
Proof.
  intros H. unfold hex_digit, unhex.
  destruct (n <? 10) eqn:E.
  - apply N.ltb_lt in E.
    assert (E1 : (48 <=? 48 + n) = true) by (apply N.leb_le; lia).
    assert (E2 : (48 + n <=? 57) = true) by (apply N.leb_le; lia).
    rewrite E1, E2. cbn [andb]. f_equal. lia.
  - apply N.ltb_ge in E.
    assert (E1 : (48 <=? 55 + n) && (55 + n <=? 57) = false).
    { apply andb_false_iff. right. apply N.leb_gt. lia. }
    assert (E2 : (65 <=? 55 + n) = true) by (apply N.leb_le; lia).
    assert (E3 : (55 + n <=? 70) = true) by (apply N.leb_le; lia).
    rewrite E1, E2, E3. cbn [andb]. f_equal. lia.
Qed.

Lemma unreserved_not_special b : unreserved b = true -> b <> 43 /\ b <> 37 /\ b <> 38 /\ b <> 61.
Proof.
  unfold unreserved. intros H. repeat split; intros E; subst b; cbn in H; discriminate.
Qed.

(* decoding what was encoded gives the original bytes back: the exchange that decodes the query sees the very values
   that were signed, whatever bytes they contain *)
Theorem unquote_quote s :
  forallb is_byte s = true -> forall fuel, (3 * length s <= fuel)%nat -> unquote_plus fuel (quote_plus s) = Some s.
Proof.
  induction s as [|b r IH]; intros Hb fuel Hf.
  - destruct fuel; reflexivity.
  - cbn [forallb] in Hb. apply andb_prop in Hb. destruct Hb as [Hb Hr].
    unfold is_byte in Hb. apply N.ltb_lt in Hb.
    cbn [quote_plus flat_map]. fold (quote_plus r). unfold quote_byte.
    cbn [length] in Hf.
    destruct (unreserved b) eqn:Eu.
    + destruct (unreserved_not_special b Eu) as (N43 & N37 & _ & _).
      destruct fuel as [|f]; [lia|]. cbn [app unquote_plus].
      destruct b as [|p]; [cbn in Eu; discriminate|].
      (* b is neither '+' (43) nor '%' (37) *)
      assert (IHr : unquote_plus f (quote_plus r) = Some r) by (apply IH; [exact Hr | lia]).
      destruct (N.eq_dec (N.pos p) 43) as [E|E]; [contradiction|].
      destruct (N.eq_dec (N.pos p) 37) as [E'|E']; [contradiction|].
      (* compute the match on the literal head *)
      assert (Hm : forall rest, unquote_plus (S f) (N.pos p :: rest) = option_map (cons (N.pos p)) (unquote_plus f rest)).
      { intros rest. cbn [unquote_plus].
        do 6 (destruct p as [p|p|]; try reflexivity; try (exfalso; apply E; reflexivity); try (exfalso; apply E'; reflexivity)). }
      cbn [unquote_plus] in Hm. rewrite Hm, IHr. reflexivity.
    + destruct (b =? 32) eqn:Es.
      * apply N.eqb_eq in Es. subst b. destruct fuel as [|f]; [lia|]. cbn [app unquote_plus].
        rewrite (IH Hr f) by lia. reflexivity.
      * destruct fuel as [|f]; [lia|]. cbn [app unquote_plus].
        assert (H1 : b / 16 < 16) by (apply N.div_lt_upper_bound; lia).
        assert (H2 : b mod 16 < 16) by (apply N.mod_lt; lia).
        rewrite (hex_digit_unhex _ H1), (hex_digit_unhex _ H2).
        rewrite (IH Hr f) by lia. cbn [option_map]. f_equal. f_equal.
        pose proof (N.div_mod b 16 ltac:(lia)). lia.
Qed.

(* every character of a quoted string is unreserved, '+', '%' or a hex digit: nothing a URL library re-escapes, and
   never '&' or '=' (so parameters cannot run into each other) *)
Definition wire_safe (b : byte) : bool :=
  unreserved b || (b =? 43) || (b =? 37).

Lemma hex_digit_unreserved n : n < 16 -> unreserved (hex_digit n) = true.
Proof.
  intros H. unfold hex_digit. destruct (n <? 10) eqn:E.
  - apply N.ltb_lt in E. unfold unreserved.
    assert (E1 : (48 <=? 48 + n) && (48 + n <=? 57) = true).
    { apply andb_true_iff. split; apply N.leb_le; lia. }
    rewrite E1. rewrite !orb_true_r. reflexivity.
  - apply N.ltb_ge in E. unfold unreserved.
    assert (E1 : (65 <=? 55 + n) && (55 + n <=? 90) = true).
    { apply andb_true_iff. split; apply N.leb_le; lia. }
    rewrite E1. reflexivity.
Qed.

Theorem quote_plus_wire_safe s : forallb is_byte s = true -> forallb wire_safe (quote_plus s) = true.
Proof.
  induction s as [|b r IH]; intros Hb; [reflexivity|].
  cbn [forallb] in Hb. apply andb_prop in Hb. destruct Hb as [Hb Hr]. unfold is_byte in Hb. apply N.ltb_lt in Hb.
  cbn [quote_plus flat_map]. fold (quote_plus r). rewrite forallb_app, (IH Hr), andb_true_r.
  unfold quote_byte. destruct (unreserved b) eqn:Eu.
  - cbn [forallb]. unfold wire_safe. rewrite Eu. reflexivity.
  - destruct (b =? 32).
    + reflexivity.
    + cbn [forallb]. unfold wire_safe.
      rewrite (hex_digit_unreserved (b / 16)) by (apply N.div_lt_upper_bound; lia).
      rewrite (hex_digit_unreserved (b mod 16)) by (apply N.mod_lt; lia). reflexivity.
Qed.

(* after 45cf4d3 the query string put on the wire is urlencode(params ++ [signature]): what precedes "&signature=" is
   exactly the urlencode of the signed parameters *)
Theorem wire_query_prefix ps k v :
  ps <> [] -> urlencode (ps ++ [(k, v)]) = urlencode ps ++ [38] ++ quote_plus k ++ [61] ++ quote_plus v.
Proof.
  induction ps as [|[k0 v0] r IH]; intros Hne; [congruence|].
  destruct r as [|p r'].
  - cbn [app urlencode]. rewrite <- !app_assoc. reflexivity.
  - cbn [app]. cbn [app] in IH. 
    change (urlencode ((k0, v0) :: p :: (r' ++ [(k, v)]))) with
      (quote_plus k0 ++ [61] ++ quote_plus v0 ++ [38] ++ urlencode (p :: r' ++ [(k, v)])).
    rewrite IH by discriminate.
    change (urlencode ((k0, v0) :: p :: r')) with (quote_plus k0 ++ [61] ++ quote_plus v0 ++ [38] ++ urlencode (p :: r')).
    rewrite <- !app_assoc. reflexivity.
Qed.
