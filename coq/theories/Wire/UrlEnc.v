(* urllib.parse.quote_plus / urlencode on byte strings (what helpers.get_signature signs and, after the fix 45cf4d3,
   exactly what is put on the wire), and the decoder a server applies.  Bytes are N < 256. *)
From Coq Require Import NArith List Bool Lia.
Import ListNotations.
Open Scope N_scope.

Definition byte := N.

(* unreserved characters of quote(): letters, digits, '_', '.', '-', '~' *)
Definition unreserved (b : byte) : bool :=
  ((65 <=? b) && (b <=? 90)) || ((97 <=? b) && (b <=? 122)) || ((48 <=? b) && (b <=? 57))
  || (b =? 95) || (b =? 46) || (b =? 45) || (b =? 126).

Definition hex_digit (n : N) : byte := if n <? 10 then 48 + n else 55 + n.        (* upper case *)
Definition unhex (b : byte) : option N :=
  if (48 <=? b) && (b <=? 57) then Some (b - 48)
  else if (65 <=? b) && (b <=? 70) then Some (b - 55)
  else if (97 <=? b) && (b <=? 102) then Some (b - 87)
  else None.

Definition quote_byte (b : byte) : list byte :=
  if unreserved b then [b]
  else if b =? 32 then [43]                                   (* space -> '+' *)
  else [37; hex_digit (b / 16); hex_digit (b mod 16)].        (* %XX *)

Definition quote_plus (s : list byte) : list byte := flat_map quote_byte s.

(* unquote_plus *)
Fixpoint unquote_plus (fuel : nat) (s : list byte) : option (list byte) :=
  match fuel with
  | O => match s with [] => Some [] | _ => None end
  | S f =>
    match s with
    | [] => Some []
    | 43 :: r => option_map (cons 32) (unquote_plus f r)
    | 37 :: h :: l :: r =>
      match unhex h, unhex l with
      | Some a, Some b => option_map (cons (a * 16 + b)) (unquote_plus f r)
      | _, _ => None
      end
    | 37 :: _ => None
    | b :: r => option_map (cons b) (unquote_plus f r)
    end
  end.

(* urlencode of a list of (key, value) pairs *)
Fixpoint urlencode (ps : list (list byte * list byte)) : list byte :=
  match ps with
  | [] => []
  | [(k, v)] => quote_plus k ++ [61] ++ quote_plus v
  | (k, v) :: r => quote_plus k ++ [61] ++ quote_plus v ++ [38] ++ urlencode r
  end.

(* what Binance receives for a signed request: query string (with the signature appended last) and body *)
Definition signed_payload (qs data : list (list byte * list byte)) : list byte := urlencode qs ++ urlencode data.

Definition is_byte (b : byte) : bool := b <? 256.
