(* correspondence checkers for the Wire models *)
From Coq Require Import ZArith NArith List Bool.
From Basana Require Import Wire.UrlEnc Wire.DecStr Wire.Decode.
Import ListNotations.

Fixpoint bytes_eqb (a b : list N) : bool :=
  match a, b with
  | [], [] => true
  | x :: a', y :: b' => N.eqb x y && bytes_eqb a' b'
  | _, _ => false
  end.
Definition check_quote (cases : list (list N * list N)) : bool :=
  forallb (fun c => bytes_eqb (quote_plus (fst c)) (snd c)) cases.
Definition check_urlencode (cases : list (list (list N * list N) * list N)) : bool :=
  forallb (fun c => bytes_eqb (urlencode (fst c)) (snd c)) cases.

Fixpoint nats_eqb (a b : list nat) : bool :=
  match a, b with
  | [], [] => true
  | x :: a', y :: b' => Nat.eqb x y && nats_eqb a' b'
  | _, _ => false
  end.
Definition check_fmt (cases : list (dec * (bool * list nat * list nat))) : bool :=
  forallb (fun c => let f := fmt_f (fst c) in let '(n, i, fr) := snd c in
                    Bool.eqb (f_neg f) n && nats_eqb (f_int f) i && nats_eqb (f_frac f) fr) cases.
Definition check_sci (cases : list (dec * bool)) : bool :=
  forallb (fun c => Bool.eqb (py_str_is_scientific (fst c)) (snd c)) cases.

Definition check_ms (cases : list (Z * Z * Z)) : bool :=
  forallb (fun c => let '(ts, s, u) := c in Z.eqb (fst (of_ms ts)) s && Z.eqb (snd (of_ms ts)) u) cases.
Definition check_us (cases : list (Z * Z * Z)) : bool :=
  forallb (fun c => let '(ts, s, u) := c in Z.eqb (fst (of_us ts)) s && Z.eqb (snd (of_us ts)) u) cases.
