(* Decimal rounding over exact rationals: the three quantize modes basana uses
   (core/helpers.py: truncate_decimal = ROUND_DOWN, round_decimal = context default ROUND_HALF_EVEN,
   round_decimal(..., ROUND_UP) = away from zero), to [p] decimal places. *)
From Coq Require Import ZArith QArith Qround Qabs List Bool.
Open Scope Q_scope.

Definition pow10 (p : nat) : Q := inject_Z (10 ^ Z.of_nat p).

Definition Qmaxq (a b : Q) : Q := if Qle_bool a b then b else a.
Definition Qminq (a b : Q) : Q := if Qle_bool a b then a else b.
Definition Qltb (a b : Q) : bool := negb (Qle_bool b a).
Definition Qabsq (a : Q) : Q := if Qle_bool 0 a then a else - a.
Definition Qzero (a : Q) : bool := Qeq_bool a 0.

(* scaled integer -> Q *)
Definition unscale (p : nat) (z : Z) : Q := Qred (inject_Z z / pow10 p).

(* ROUND_DOWN: toward zero *)
Definition ztrunc (s : Q) : Z := if Qle_bool 0 s then Qfloor s else Qceiling s.
Definition qtrunc (p : nat) (q : Q) : Q := unscale p (ztrunc (q * pow10 p)).

(* ROUND_UP: away from zero *)
Definition zroundup (s : Q) : Z := if Qle_bool 0 s then Qceiling s else Qfloor s.
Definition qroundup (p : nat) (q : Q) : Q := unscale p (zroundup (q * pow10 p)).

(* ROUND_HALF_EVEN *)
Definition zround (s : Q) : Z :=
  let f := Qfloor s in
  let r := s - inject_Z f in                  (* 0 <= r < 1 *)
  if Qltb r (1 # 2) then f
  else if Qltb (1 # 2) r then (f + 1)%Z
  else if Z.even f then f else (f + 1)%Z.
Definition qround (p : nat) (q : Q) : Q := unscale p (zround (q * pow10 p)).

Definition on_grid_b (p : nat) (q : Q) : bool := Qeq_bool (qtrunc p q) q.
