(* Lemmas about the decimal rounding functions of Num/DecQ.v *)
From Coq Require Import ZArith QArith Qround Lia Lqa List Bool.
From Basana Require Import Num.DecQ.
Open Scope Q_scope.

Lemma pow10_pos p : 0 < pow10 p.
Proof. unfold pow10. change 0 with (inject_Z 0). rewrite <- Zlt_Qlt. apply Z.pow_pos_nonneg; lia. Qed.

Lemma Qle_bool_false' a b : Qle_bool a b = false -> b < a.
Proof. intros H. apply Qnot_le_lt. intros Hle. apply Qle_bool_iff in Hle. congruence. Qed.

Definition on_grid (p : nat) (q : Q) : Prop := exists z : Z, q == inject_Z z / pow10 p.

Lemma unscale_eq p z : unscale p z == inject_Z z / pow10 p.
Proof. unfold unscale. apply Qred_correct. Qed.

Lemma unscale_on_grid p z : on_grid p (unscale p z).
Proof. exists z. apply unscale_eq. Qed.

Lemma qtrunc_on_grid p q : on_grid p (qtrunc p q).
Proof. apply unscale_on_grid. Qed.
Lemma qround_on_grid p q : on_grid p (qround p q).
Proof. apply unscale_on_grid. Qed.
Lemma qroundup_on_grid p q : on_grid p (qroundup p q).
Proof. apply unscale_on_grid. Qed.

Lemma on_grid_plus p a b : on_grid p a -> on_grid p b -> on_grid p (a + b).
Proof.
  intros [x Hx] [y Hy]. exists (x + y)%Z. rewrite Hx, Hy, inject_Z_plus.
  pose proof (pow10_pos p). field. lra.
Qed.

Lemma on_grid_opp p a : on_grid p a -> on_grid p (- a).
Proof.
  intros [x Hx]. exists (- x)%Z. rewrite Hx, inject_Z_opp. pose proof (pow10_pos p). field. lra.
Qed.

Lemma on_grid_zero p : on_grid p 0.
Proof. exists 0%Z. pose proof (pow10_pos p). change (inject_Z 0) with 0. field. lra. Qed.

Global Instance on_grid_proper p : Proper (Qeq ==> iff) (on_grid p).
Proof. intros a b E. unfold on_grid. split; intros [z H]; exists z; [rewrite <- E | rewrite E]; exact H. Qed.

(* truncation of a non-negative number stays between 0 and the number *)
Lemma qtrunc_nonneg p q : 0 <= q -> 0 <= qtrunc p q /\ qtrunc p q <= q.
Proof.
  intros Hq. unfold qtrunc, ztrunc. rewrite unscale_eq. pose proof (pow10_pos p) as Hp.
  assert (Hs : 0 <= q * pow10 p) by nra.
  destruct (Qle_bool 0 (q * pow10 p)) eqn:E.
  - pose proof (Qfloor_le (q * pow10 p)).
    assert (0 <= inject_Z (Qfloor (q * pow10 p))).
    { change 0 with (inject_Z 0). rewrite <- Zle_Qle. apply Qfloor_resp_le in Hs. exact Hs. }
    split.
    + apply Qle_shift_div_l; [exact Hp|]. nra.
    + apply Qle_shift_div_r; [exact Hp|]. nra.
  - rewrite <- Qle_bool_iff in Hs. congruence.
Qed.

Lemma Qfloor_unique x n : inject_Z n <= x -> x < inject_Z (n + 1) -> Qfloor x = n.
Proof.
  intros H1 H2. pose proof (Qfloor_le x) as F1. pose proof (Qlt_floor x) as F2.
  assert (n <= Qfloor x)%Z.
  { apply Qfloor_resp_le in H1. rewrite Qfloor_Z in H1. exact H1. }
  assert (Qfloor x < n + 1)%Z.
  { rewrite Zlt_Qlt. lra. }
  lia.
Qed.

Lemma Qfloor_shift x z : Qfloor (x - inject_Z z) = (Qfloor x - z)%Z.
Proof.
  apply Qfloor_unique.
  - unfold Z.sub. rewrite inject_Z_plus, inject_Z_opp. pose proof (Qfloor_le x). lra.
  - replace (Qfloor x - z + 1)%Z with ((Qfloor x + 1) - z)%Z by lia.
    unfold Z.sub at 1. rewrite inject_Z_plus, inject_Z_opp. pose proof (Qlt_floor x). lra.
Qed.

(* rounding a negative amount away from zero is rounding it down to the grid *)
Lemma qroundup_neg p x : x < 0 -> qroundup p x == inject_Z (Qfloor (x * pow10 p)) / pow10 p.
Proof.
  intros Hx. unfold qroundup, zroundup. rewrite unscale_eq. pose proof (pow10_pos p) as Hp.
  destruct (Qle_bool 0 (x * pow10 p)) eqn:E.
  - apply Qle_bool_iff in E. nra.
  - reflexivity.
Qed.

Lemma qroundup_zero p : qroundup p 0 == 0.
Proof.
  unfold qroundup, zroundup. rewrite unscale_eq. pose proof (pow10_pos p) as Hp.
  assert (E : 0 * pow10 p == 0) by ring.
  destruct (Qle_bool 0 (0 * pow10 p)) eqn:B.
  - assert (Qceiling (0 * pow10 p) = 0%Z).
    { rewrite (Qceiling_comp _ _ E). reflexivity. }
    rewrite H. change (inject_Z 0) with 0. field. lra.
  - apply Qle_bool_false' in B. lra.
Qed.

(* a negative amount shifted by a grid point rounds to the rounding shifted by that grid point *)
Lemma qroundup_shift p x g :
  on_grid p g -> x < 0 -> x - g < 0 -> qroundup p (x - g) == qroundup p x - g.
Proof.
  intros [z Hz] Hx Hxg. rewrite (qroundup_neg p (x - g) Hxg), (qroundup_neg p x Hx).
  pose proof (pow10_pos p) as Hp.
  assert (E : (x - g) * pow10 p == x * pow10 p - inject_Z z).
  { rewrite Hz. field. lra. }
  rewrite (Qfloor_comp _ _ E), Qfloor_shift.
  unfold Z.sub. rewrite inject_Z_plus, inject_Z_opp, Hz. field. lra.
Qed.

Lemma qroundup_neg_le p x : x < 0 -> qroundup p x <= x.
Proof.
  intros Hx. rewrite (qroundup_neg p x Hx). pose proof (pow10_pos p) as Hp.
  apply Qle_shift_div_r; [exact Hp|]. apply Qfloor_le.
Qed.

(* the largest grid point below a negative x: any grid point <= x is <= the rounding *)
Lemma qroundup_neg_greatest p x g : x < 0 -> on_grid p g -> g <= x -> g <= qroundup p x.
Proof.
  intros Hx [z Hz] Hg. rewrite (qroundup_neg p x Hx). pose proof (pow10_pos p) as Hp.
  rewrite Hz. apply Qle_shift_div_l; [exact Hp|].
  assert (E : inject_Z z / pow10 p * pow10 p == inject_Z z) by (field; lra).
  rewrite E. rewrite <- Zle_Qle.
  assert (Hzx : inject_Z z <= x * pow10 p).
  { rewrite Hz in Hg.
    assert (inject_Z z / pow10 p * pow10 p <= x * pow10 p) by nra.
    lra. }
  apply Qfloor_resp_le in Hzx. rewrite Qfloor_Z in Hzx. exact Hzx.
Qed.

Lemma qroundup_neg_mono p x y : x <= y -> y < 0 -> qroundup p x <= qroundup p y.
Proof.
  intros Hxy Hy. assert (Hx : x < 0) by lra.
  apply qroundup_neg_greatest; [exact Hy | apply qroundup_on_grid |].
  pose proof (qroundup_neg_le p x Hx). lra.
Qed.

Lemma qroundup_nonpos p x : x <= 0 -> qroundup p x <= 0.
Proof.
  intros Hx. destruct (Qlt_le_dec x 0) as [Hn|Hp].
  - pose proof (qroundup_neg_le p x Hn). lra.
  - assert (E : x == 0) by lra. 
    unfold qroundup. rewrite unscale_eq. unfold zroundup.
    assert (E2 : x * pow10 p == 0) by (rewrite E; ring).
    pose proof (pow10_pos p) as Hpp.
    destruct (Qle_bool 0 (x * pow10 p)) eqn:B.
    + rewrite (Qceiling_comp _ _ E2). change (Qceiling 0) with 0%Z. change (inject_Z 0) with 0.
      apply Qle_shift_div_r; [exact Hpp|]. lra.
    + apply Qle_bool_false' in B. lra.
Qed.

(* ---------------------------------------------------------------------------------------------- *)
(* ROUND_HALF_EVEN moves a number by at most half a unit of the last place *)
Lemma Qltb_true' a b : Qltb a b = true -> a < b.
Proof. unfold Qltb. intros H. apply negb_true_iff in H. apply Qle_bool_false' in H. exact H. Qed.
Lemma Qltb_false' a b : Qltb a b = false -> b <= a.
Proof. unfold Qltb. intros H. apply negb_false_iff in H. apply Qle_bool_iff in H. exact H. Qed.

Lemma zround_err s : inject_Z (zround s) - s <= 1 # 2 /\ s - inject_Z (zround s) <= 1 # 2.
Proof.
  unfold zround. pose proof (Qfloor_le s) as F1. pose proof (Qlt_floor s) as F2.
  rewrite inject_Z_plus in F2. change (inject_Z 1) with 1 in F2.
  destruct (Qltb (s - inject_Z (Qfloor s)) (1 # 2)) eqn:E1.
  - apply Qltb_true' in E1. split; lra.
  - apply Qltb_false' in E1.
    destruct (Qltb (1 # 2) (s - inject_Z (Qfloor s))) eqn:E2.
    + apply Qltb_true' in E2. rewrite inject_Z_plus. change (inject_Z 1) with 1. split; lra.
    + apply Qltb_false' in E2. destruct (Z.even (Qfloor s)).
      * split; lra.
      * rewrite inject_Z_plus. change (inject_Z 1) with 1. split; lra.
Qed.

Definition half_unit (p : nat) : Q := (1 # 2) / pow10 p.

Lemma qround_err p x : qround p x - x <= half_unit p /\ x - qround p x <= half_unit p.
Proof.
  unfold qround, half_unit. rewrite unscale_eq. pose proof (pow10_pos p) as Hp.
  destruct (zround_err (x * pow10 p)) as [H1 H2].
  assert (E : forall a, a / pow10 p - x == (a - x * pow10 p) / pow10 p) by (intros; field; lra).
  assert (E' : forall a, x - a / pow10 p == (x * pow10 p - a) / pow10 p) by (intros; field; lra).
  split.
  - rewrite E. unfold Qdiv. apply Qmult_le_compat_r; [exact H1|]. apply Qlt_le_weak, Qinv_lt_0_compat, Hp.
  - rewrite E'. unfold Qdiv. apply Qmult_le_compat_r; [exact H2|]. apply Qlt_le_weak, Qinv_lt_0_compat, Hp.
Qed.

Lemma qtrunc_nonpos p q : q <= 0 -> q <= qtrunc p q /\ qtrunc p q <= 0.
Proof.
  intros Hq. unfold qtrunc, ztrunc. rewrite unscale_eq. pose proof (pow10_pos p) as Hp.
  assert (Hs : q * pow10 p <= 0) by nra.
  destruct (Qle_bool 0 (q * pow10 p)) eqn:E.
  - apply Qle_bool_iff in E. assert (Ez : q * pow10 p == 0) by lra.
    rewrite (Qfloor_comp _ _ Ez). change (Qfloor 0) with 0%Z. change (inject_Z 0) with 0.
    split.
    + apply Qle_shift_div_l; [exact Hp|]. lra.
    + apply Qle_shift_div_r; [exact Hp|]. lra.
  - pose proof (Qle_ceiling (q * pow10 p)) as C1.
    assert (C2 : inject_Z (Qceiling (q * pow10 p)) <= 0).
    { change 0 with (inject_Z 0). rewrite <- Zle_Qle. 
      apply Qceiling_resp_le in Hs. change 0 with (inject_Z 0) in Hs. rewrite Qceiling_Z in Hs. exact Hs. }
    split.
    + apply Qle_shift_div_l; [exact Hp|]. lra.
    + apply Qle_shift_div_r; [exact Hp|]. lra.
Qed.
