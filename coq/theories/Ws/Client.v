(* Model of the channel bookkeeping of core/websockets.py WebSocketClient (after d817b12): registered channels,
   pending subscriptions, the subscribe request flag, the subscribe loop (wake up, clear the flag, take the pending
   set, send SUBSCRIBE, then loop), connection establishment (everything registered becomes pending, flag set) and
   loss; plus the keep-alive bookkeeping of external/binance/websockets.py and the back-off arithmetic of main(). *)
From Coq Require Import List Bool Arith ZArith Lia.
Import ListNotations.

Definition chan := nat.
Definition mem (c : chan) (l : list chan) : bool := existsb (Nat.eqb c) l.
Fixpoint union (a b : list chan) : list chan :=
  match b with [] => a | x :: r => if mem x a then union a r else union (a ++ [x]) r end.
Definition subset (a b : list chan) : bool := forallb (fun x => mem x b) a.

Record ws := mkWs {
  registered : list chan;          (* _event_sources keys *)
  pending : list chan;             (* _pending_subscriptions *)
  sub_req : bool;                  (* _subscribe_request *)
  conn : option (list chan);       (* Some (channels subscribed on this connection) while connected *)
  taken : option (list chan) }.    (* channels the subscribe loop has taken and is sending right now *)

Inductive action :=
| Connect                          (* main(): connection established *)
| Disconnect                       (* close, drop, error, reconnect request: the connection's tasks end *)
| Register (c : chan)              (* set_channel_event_source *)
| Resubscribe (cs : list chan)     (* schedule_resubscription *)
| SubTake                          (* subscribe loop: wait() returned; clear(); take the pending set *)
| SubSent.                         (* subscribe_to_channels returned *)

Definition init_ws : ws := mkWs [] [] false None None.

Definition step (s : ws) (a : action) : option ws :=
  match a with
  | Connect =>
    match conn s with
    | None => Some (mkWs (registered s) (union (pending s) (registered s)) true (Some []) None)
    | Some _ => None
    end
  | Disconnect =>
    match conn s with
    | Some _ => Some (mkWs (registered s) (pending s) true None None)    (* _msg_loop sets the request flags on exit *)
    | None => None
    end
  | Register c =>
    if mem c (registered s) then None                                  (* assert channel not in self._event_sources *)
    else Some (mkWs (registered s ++ [c]) (union (pending s) [c]) true (conn s) (taken s))
  | Resubscribe cs => Some (mkWs (registered s) (union (pending s) cs) true (conn s) (taken s))
  | SubTake =>
    match conn s, taken s, sub_req s with
    | Some subs, None, true =>
      match pending s with
      | [] => Some (mkWs (registered s) [] false (Some subs) None)
      | p => Some (mkWs (registered s) [] false (Some subs) (Some p))
      end
    | _, _, _ => None
    end
  | SubSent =>
    match conn s, taken s with
    | Some subs, Some t => Some (mkWs (registered s) (pending s) (sub_req s) (Some (union subs t)) None)
    | _, _ => None
    end
  end.

Fixpoint run (s : ws) (acts : list action) : option ws :=
  match acts with [] => Some s | a :: r => match step s a with Some s' => run s' r | None => None end end.

(* nothing left to do for the subscribe loop on this connection *)
Definition quiescent (s : ws) : bool :=
  match conn s, taken s with Some _, None => negb (sub_req s) | _, _ => false end.

(* correspondence: replay the logged actions; after each SubSent compare what is subscribed on the connection *)
Fixpoint check_log (s : ws) (k : nat) (acts : list (action * option (list chan))) : option nat :=
  match acts with
  | [] => None
  | (a, obs) :: r =>
    match step s a with
    | None => Some k
    | Some s' =>
      match obs, conn s' with
      | Some o, Some subs => if subset o subs && subset subs o then check_log s' (S k) r else Some k
      | Some _, None => Some k
      | None, _ => check_log s' (S k) r
      end
    end
  end.

(* replay, then compare the final state: is the subscribe loop idle, and what is subscribed on the live connection *)
Fixpoint replay (s : ws) (k : nat) (acts : list action) : ws + nat :=
  match acts with
  | [] => inl s
  | a :: r => match step s a with Some s' => replay s' (S k) r | None => inr k end
  end.
Definition check_final (acts : list action) (idle : bool) (observed_subs : list chan) : option nat :=
  match replay init_ws 0 acts with
  | inr k => Some k
  | inl s =>
    if idle then
      match conn s with
      | Some subs => if quiescent s && subset subs observed_subs && subset observed_subs subs then None else Some 999
      | None => Some 998
      end
    else None
  end.

(* ---------------------------------------------------------------------------------------------- *)
(* Binance keep-alive: per channel the deadline _next_keep_alive and the scheduler jobs (their due times) *)
Record ka := mkKa { next_ka : option Z; jobs : list Z; refreshed : list Z }.

(* _schedule_keep_alive at clock now *)
Definition ka_schedule (s : ka) (now period : Z) : ka := mkKa (Some (now + period)%Z) (jobs s ++ [(now + period)%Z]) (refreshed s).

(* the scheduler runs the job that was due at [due] (clock = now >= due) *)
Definition ka_fire (s : ka) (due now period : Z) : ka :=
  let s1 := mkKa (next_ka s) (remove Z.eq_dec due (jobs s)) (refreshed s) in
  match next_ka s with
  | Some d => if Z.leb d now
              then ka_schedule (mkKa (next_ka s1) (jobs s1) (refreshed s1 ++ [now])) now period
              else s1
  | None => s1
  end.

(* main(): how long to wait before the next connection attempt *)
Definition backoff_wait (now last_connect backoff : Z) : Z :=
  if Z.ltb (now - last_connect) backoff then (backoff - (now - last_connect))%Z else 0%Z.
