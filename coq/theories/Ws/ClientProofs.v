From Coq Require Import List Bool Arith ZArith Lia.
From Basana Require Import Ws.Client.
Import ListNotations.

Lemma mem_in c l : mem c l = true <-> In c l.
Proof.
  unfold mem. split.
  - intros H. apply existsb_exists in H. destruct H as (x & Hx & E). apply Nat.eqb_eq in E. subst. exact Hx.
  - intros H. apply existsb_exists. exists c. split; [exact H | apply Nat.eqb_refl].
Qed.

Lemma union_in a b x : In x (union a b) <-> In x a \/ In x b.
Proof.
  revert a. induction b as [|y r IH]; intros a; cbn [union].
  - split; [intros H; left; exact H | intros [H|[]]; exact H].
  - destruct (mem y a) eqn:E.
    + rewrite IH. apply mem_in in E. split.
      * intros [H|H]; [left; exact H | right; right; exact H].
      * intros [H|[H|H]]; [left; exact H | subst; left; exact E | right; exact H].
    + rewrite IH. rewrite in_app_iff. cbn [In]. split.
      * intros [[H|[H|[]]]|H]; [left; exact H | right; left; exact H | right; right; exact H].
      * intros [H|[H|H]]; [left; left; exact H | left; right; left; exact H | right; exact H].
Qed.

Ltac inv_some H :=
  match type of H with Some ?x = Some ?y =>
    let E := fresh "E" in assert (E : y = x) by congruence; subst y; clear H end.

Definition opt_list (o : option (list chan)) : list chan := match o with Some l => l | None => [] end.

(* the invariant: while connected, every registered channel is subscribed on this connection, or pending, or being
   sent right now; and whenever something is pending the subscribe request flag is set *)
Definition K (s : ws) : Prop :=
  match conn s with
  | Some subs =>
    (forall c, In c (registered s) -> In c subs \/ In c (pending s) \/ In c (opt_list (taken s))) /\
    (pending s <> [] -> sub_req s = true)
  | None => taken s = None
  end.

Lemma K_init : K init_ws.
Proof. reflexivity. Qed.

Theorem step_K s a s' : K s -> step s a = Some s' -> K s'.
Proof.
  unfold K. intros HK H. destruct a; cbn [step] in H.
  - (* Connect *)
    destruct (conn s); [discriminate|]. inv_some H. cbn [conn registered pending taken sub_req opt_list].
    split; [|reflexivity]. intros c Hc. right. left. apply union_in. right. exact Hc.
  - (* Disconnect *)
    destruct (conn s); [|discriminate]. inv_some H. reflexivity.
  - (* Register *)
    destruct (mem c (registered s)); [discriminate|]. inv_some H. cbn [conn registered pending taken sub_req].
    destruct (conn s) as [subs|]; [|exact HK]. destruct HK as [H1 H2]. split; [|reflexivity].
    intros c0 Hc0. apply in_app_or in Hc0. destruct Hc0 as [Hc0|[E|[]]].
    + destruct (H1 c0 Hc0) as [X|[X|X]]; [left; exact X | right; left; apply union_in; left; exact X | right; right; exact X].
    + subst c0. right. left. apply union_in. right. left. reflexivity.
  - (* Resubscribe *)
    inv_some H. cbn [conn registered pending taken sub_req].
    destruct (conn s) as [subs|]; [|exact HK]. destruct HK as [H1 H2]. split; [|reflexivity].
    intros c0 Hc0. destruct (H1 c0 Hc0) as [X|[X|X]]; [left; exact X | right; left; apply union_in; left; exact X | right; right; exact X].
  - (* SubTake *)
    destruct (conn s) as [subs|]; [|discriminate]. destruct (taken s); [discriminate|].
    destruct (sub_req s); [|discriminate]. destruct HK as [H1 H2].
    destruct (pending s) as [|p0 pr] eqn:Ep; inv_some H; cbn [conn registered pending taken sub_req opt_list].
    + split; [|intros X; congruence]. intros c Hc. destruct (H1 c Hc) as [X|[[]|[]]]. left. exact X.
    + split; [|intros X; congruence]. intros c Hc. destruct (H1 c Hc) as [X|[X|[]]]; [left; exact X | right; right; exact X].
  - (* SubSent *)
    destruct (conn s) as [subs|]; [|discriminate]. destruct (taken s) as [t|]; [|discriminate].
    inv_some H. cbn [conn registered pending taken sub_req opt_list]. destruct HK as [H1 H2]. split; [|exact H2].
    intros c Hc. destruct (H1 c Hc) as [X|[X|X]]; [left; apply union_in; left; exact X | right; left; exact X | left; apply union_in; right; exact X].
Qed.

Theorem run_K acts : forall s s', K s -> run s acts = Some s' -> K s'.
Proof.
  induction acts as [|a r IH]; intros s s' HK H; cbn [run] in H.
  - inversion H; subst. exact HK.
  - destruct (step s a) as [s1|] eqn:E; [|discriminate]. eapply IH; [eapply step_K; eassumption | exact H].
Qed.

(* For every sequence of connections, losses, registrations, re-subscription flags and subscribe-loop steps: whenever
   the client is connected and its subscribe loop has nothing left to do, every registered channel is subscribed on the
   current connection. *)
Theorem quiescent_subscribed acts s :
  run init_ws acts = Some s -> quiescent s = true ->
  exists subs, conn s = Some subs /\ forall c, In c (registered s) -> In c subs.
Proof.
  intros Hrun Hq. pose proof (run_K acts init_ws s K_init Hrun) as HK. unfold K, quiescent in *.
  destruct (conn s) as [subs|]; [|discriminate]. destruct (taken s); [discriminate|].
  apply negb_true_iff in Hq. destruct HK as [H1 H2]. exists subs. split; [reflexivity|].
  intros c Hc. destruct (H1 c Hc) as [X|[X|[]]]; [exact X|].
  exfalso. assert (pending s <> []) by (intros E; rewrite E in X; contradiction). rewrite (H2 H) in Hq. discriminate.
Qed.

(* a channel flagged for re-subscription on a live connection makes the subscribe loop runnable at once *)
Theorem resubscription_wakes_the_loop s cs s' :
  step s (Resubscribe cs) = Some s' -> sub_req s' = true /\ forall c, In c cs -> In c (pending s').
Proof.
  cbn [step]. intros H. inv_some H. cbn [sub_req pending]. split; [reflexivity|].
  intros c Hc. apply union_in. right. exact Hc.
Qed.

(* ---------------------------------------------------------------------------------------------- *)
(* keep-alive: a job is always pending at the current deadline *)
Definition ka_ok (s : ka) : Prop := match next_ka s with Some d => In d (jobs s) | None => True end.

Lemma ka_schedule_ok s now period : ka_ok (ka_schedule s now period).
Proof. unfold ka_ok, ka_schedule. cbn [next_ka jobs]. apply in_or_app. right. left. reflexivity. Qed.

Lemma in_remove_other (l : list Z) x y : In y l -> y <> x -> In y (remove Z.eq_dec x l).
Proof. intros H Hne. apply in_in_remove; assumption. Qed.

Theorem ka_fire_ok s due now period :
  ka_ok s -> (due <= now)%Z -> In due (jobs s) -> (0 < period)%Z -> ka_ok (ka_fire s due now period).
Proof.
  intros Hok Hdue Hin Hp. unfold ka_fire. destruct (next_ka s) as [d|] eqn:En.
  - destruct (Z.leb d now) eqn:E.
    + apply ka_schedule_ok.
    + apply Z.leb_gt in E. unfold ka_ok in *. cbn [next_ka jobs]. rewrite En in *.
      apply in_remove_other; [exact Hok | lia].
  - unfold ka_ok. cbn [next_ka]. exact I.
Qed.

(* when the job at the current deadline fires, the key is refreshed and the next deadline is one period later *)
Theorem ka_fire_refreshes s d now period :
  next_ka s = Some d -> (d <= now)%Z ->
  next_ka (ka_fire s d now period) = Some (now + period)%Z /\ In now (refreshed (ka_fire s d now period)).
Proof.
  intros En Hd. unfold ka_fire. rewrite En. assert (E : Z.leb d now = true) by (apply Z.leb_le; exact Hd). rewrite E.
  unfold ka_schedule. cbn [next_ka refreshed]. split; [reflexivity | apply in_or_app; right; left; reflexivity].
Qed.

(* back-off: after waiting what main() computes, at least [backoff] has passed since the last attempt *)
Theorem backoff_respected now last backoff :
  (last <= now)%Z -> (backoff <= (now + backoff_wait now last backoff) - last)%Z.
Proof.
  intros H. unfold backoff_wait. destruct (Z.ltb (now - last) backoff) eqn:E.
  - lia.
  - apply Z.ltb_ge in E. lia.
Qed.
