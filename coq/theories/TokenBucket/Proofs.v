(* Proofs about the token-bucket model.  Nothing here is executed by the correspondence check. *)
From Coq Require Import ZArith QArith Qround Lia Lqa List Bool.
From Basana Require Import TokenBucket.Model.
Import ListNotations.
Open Scope Q_scope.

Definition rate (s : tb) : Q := tpp s / period s.
Definition irate (s : tb) : Q := period s / tpp s.

Definition wf (s : tb) : Prop := 0 < tpp s /\ 0 < period s /\ tokens s <= cap s /\ tpp s <= cap s.

Lemma rate_pos s : wf s -> 0 < rate s.
Proof. intros (Ht & Hp & _ & _). unfold rate. apply Qlt_shift_div_l; lra. Qed.

Lemma irate_pos s : wf s -> 0 < irate s.
Proof. intros (Ht & Hp & _ & _). unfold irate. apply Qlt_shift_div_l; lra. Qed.

Lemma rate_irate s : wf s -> rate s * irate s == 1.
Proof. intros (Ht & Hp & _ & _). unfold rate, irate. field. split; lra. Qed.

Lemma Qle_bool_false a b : Qle_bool a b = false -> b < a.
Proof.
  intros H. apply Qnot_le_lt. intros Hle. apply Qle_bool_iff in Hle. congruence.
Qed.

(* One-step characterisation of consume. *)
Record step_spec (s : tb) (now : Q) (s' : tb) (w : Q) : Prop := {
  ss_tpp : tpp s' = tpp s;
  ss_period : period s' = period s;
  ss_cap : cap s' = cap s;
  ss_last : last s' = now;
  ss_tok_le : tokens s' <= tokens s + (now - last s) * rate s - 1;
  ss_tok_cap : tokens s' <= cap s - 1;
  ss_tok_exact : tokens s + (now - last s) * rate s <= cap s ->
                 tokens s' == tokens s + (now - last s) * rate s - 1;
  ss_tok_clip : cap s <= tokens s + (now - last s) * rate s -> tokens s' == cap s - 1;
  ss_wait_zero : 0 <= tokens s' -> w == 0;
  ss_wait_debt : tokens s' < 0 -> w == - tokens s' * irate s
}.

Lemma consume_spec s now :
  wf s -> step_spec s now (fst (consume s now)) (snd (consume s now)).
Proof.
  intros Hwf. destruct Hwf as (Ht & Hp & Hc & Hcc).
  assert (Hr : (now - last s) / period s * tpp s == (now - last s) * rate s).
  { unfold rate. field. lra. }
  unfold consume.
  set (t1 := tokens s + (now - last s) / period s * tpp s).
  assert (Ht1 : t1 == tokens s + (now - last s) * rate s) by (unfold t1; rewrite Hr; reflexivity).
  destruct (Qle_bool t1 (cap s)) eqn:Eclip.
  - apply Qle_bool_iff in Eclip.
    destruct (Qle_bool 0 (Qred (t1 - 1))) eqn:Ez; cbn [fst snd tpp period cap last tokens].
    + apply Qle_bool_iff in Ez. rewrite Qred_correct in Ez.
      constructor; cbn [tpp period cap last tokens]; try reflexivity; rewrite ?Qred_correct; intros; try lra.
    + apply Qle_bool_false in Ez. rewrite Qred_correct in Ez.
      constructor; cbn [tpp period cap last tokens]; try reflexivity; rewrite ?Qred_correct; intros; try lra.
      unfold irate. field. lra.
  - apply Qle_bool_false in Eclip.
    destruct (Qle_bool 0 (Qred (cap s - 1))) eqn:Ez; cbn [fst snd tpp period cap last tokens].
    + apply Qle_bool_iff in Ez. rewrite Qred_correct in Ez.
      constructor; cbn [tpp period cap last tokens]; try reflexivity; rewrite ?Qred_correct; intros; try lra.
    + apply Qle_bool_false in Ez. rewrite Qred_correct in Ez.
      constructor; cbn [tpp period cap last tokens]; try reflexivity; rewrite ?Qred_correct; intros; try lra.
      unfold irate. field. lra.
Qed.

Lemma consume_wf s now : wf s -> wf (fst (consume s now)).
Proof.
  intros Hwf. pose proof (consume_spec s now Hwf) as H. destruct H.
  destruct Hwf as (Ht & Hp & Hc & Hcc). unfold wf.
  rewrite ss_tpp0, ss_period0, ss_cap0. repeat split; try assumption. lra.
Qed.

Lemma consume_rate s now : rate (fst (consume s now)) = rate s /\ irate (fst (consume s now)) = irate s.
Proof.
  unfold consume, rate, irate.
  destruct (Qle_bool 0 _); cbn [fst tpp period]; split; reflexivity.
Qed.

(* ---------------------------------------------------------------------------------------------- *)
(* 1. waits are never negative *)

Lemma wait_nonneg s now : wf s -> 0 <= snd (consume s now).
Proof.
  intros Hwf. pose proof (consume_spec s now Hwf) as H. pose proof (irate_pos s Hwf) as Hi.
  destruct (Qlt_le_dec (tokens (fst (consume s now))) 0) as [Hneg | Hpos].
  - rewrite (ss_wait_debt _ _ _ _ H Hneg). nra.
  - rewrite (ss_wait_zero _ _ _ _ H Hpos). lra.
Qed.

Lemma waits_nonneg s arr : wf s -> Forall (fun w => 0 <= w) (waits s arr).
Proof.
  revert s. induction arr as [|a r IH]; intros s Hwf; cbn [waits]; [constructor|].
  destruct (consume s a) as [s' w] eqn:E.
  constructor.
  - pose proof (wait_nonneg s a Hwf) as H. rewrite E in H. exact H.
  - apply IH. pose proof (consume_wf s a Hwf) as H. rewrite E in H. exact H.
Qed.

(* ---------------------------------------------------------------------------------------------- *)
(* 2. bursts: k simultaneous requests when [a] tokens are available *)

(* state after k further consumes at the same instant [last s] *)
Fixpoint burst (s : tb) (k : nat) : tb :=
  match k with O => s | S k' => burst (fst (consume s (last s))) k' end.

Lemma burst_tokens s k :
  wf s -> wf (burst s k) /\ tokens (burst s k) == tokens s - inject_Z (Z.of_nat k)
          /\ last (burst s k) = last s /\ irate (burst s k) = irate s.
Proof.
  revert s. induction k as [|k IH]; intros s Hwf.
  - cbn [burst]. split; [exact Hwf|]. split; [|split; reflexivity].
    change (inject_Z (Z.of_nat 0)) with 0. lra.
  - cbn [burst].
    pose proof (consume_spec s (last s) Hwf) as H.
    pose proof (consume_wf s (last s) Hwf) as Hwf'.
    destruct (IH _ Hwf') as (Hw & Htok & Hlast & Hir).
    split; [exact Hw|]. split; [|split].
    + rewrite Htok. rewrite (ss_tok_exact _ _ _ _ H).
      * rewrite Nat2Z.inj_succ. unfold Z.succ. rewrite inject_Z_plus.
        change (inject_Z 1) with 1. lra.
      * destruct Hwf as (_ & _ & Hc & _). lra.
    + rewrite Hlast. apply (ss_last _ _ _ _ H).
    + rewrite Hir. apply consume_rate.
Qed.

(* the (k+1)-th request of the burst (k requests already served at this instant) *)
Definition burst_wait (s : tb) (k : nat) : Q := snd (consume (burst s k) (last s)).

Theorem burst_delay_exact s k :
  wf s ->
  let a := tokens s in
  let kq := inject_Z (Z.of_nat (S k)) in
  (kq <= a -> burst_wait s k == 0) /\
  (a < kq -> burst_wait s k == (kq - a) * irate s).
Proof.
  intros Hwf a kq. unfold burst_wait.
  destruct (burst_tokens s k Hwf) as (Hw & Htok & Hlast & Hir).
  pose proof (consume_spec (burst s k) (last s) Hw) as H.
  assert (Hex : tokens (fst (consume (burst s k) (last s))) == a - kq).
  { rewrite (ss_tok_exact _ _ _ _ H).
    - rewrite Hlast, Htok. unfold kq, a. rewrite Nat2Z.inj_succ. unfold Z.succ. rewrite inject_Z_plus.
      change (inject_Z 1) with 1. lra.
    - rewrite Hlast. destruct Hw as (_ & _ & Hc & _). lra. }
  split; intros Hcmp.
  - apply (ss_wait_zero _ _ _ _ H). lra.
  - rewrite (ss_wait_debt _ _ _ _ H) by lra. rewrite Hex, Hir. lra.
Qed.

(* ---------------------------------------------------------------------------------------------- *)
(* 3. refill at [rate] up to the capacity: tokens before the decrement *)

Theorem refill_rate_and_cap s now :
  wf s -> last s <= now ->
  let pre := tokens (fst (consume s now)) + 1 in
  (tokens s + (now - last s) * rate s <= cap s -> pre == tokens s + (now - last s) * rate s) /\
  (cap s <= tokens s + (now - last s) * rate s -> pre == cap s) /\
  pre <= cap s.
Proof.
  intros Hwf Hnow pre. pose proof (consume_spec s now Hwf) as H. unfold pre.
  repeat split.
  - intros Hc. rewrite (ss_tok_exact _ _ _ _ H Hc). lra.
  - intros Hc. rewrite (ss_tok_clip _ _ _ _ H Hc). lra.
  - pose proof (ss_tok_cap _ _ _ _ H). lra.
Qed.

(* ---------------------------------------------------------------------------------------------- *)
(* 4. the rate bound *)

Definition in_window (t L x : Q) : bool := Qle_bool t x && Qle_bool x (t + L).
Definition count_le (u : Q) (l : list Q) : nat := length (filter (fun x => Qle_bool x u) l).
Definition count_win (t L : Q) (l : list Q) : nat := length (filter (in_window t L) l).

Definition qn (n : nat) : Q := inject_Z (Z.of_nat n).

Lemma qn_S n : qn (S n) == qn n + 1.
Proof. unfold qn. rewrite Nat2Z.inj_succ. unfold Z.succ. rewrite inject_Z_plus. reflexivity. Qed.

Lemma qn_nonneg n : 0 <= qn n.
Proof. unfold qn. change 0 with (inject_Z 0). rewrite <- Zle_Qle. lia. Qed.

Fixpoint sorted_from (lo : Q) (l : list Q) : Prop :=
  match l with [] => True | a :: r => lo <= a /\ sorted_from a r end.

(* after a request served at [last s] leaving [tokens s] (post-decrement), later sends that are <= u *)
Lemma count_after s arr u :
  wf s -> sorted_from (last s) arr ->
  tokens s <= cap s - 1 ->
  qn (count_le u (sends s arr)) <= Qmaxq 0 (tokens s + rate s * (u - last s)).
Proof.
  revert s. induction arr as [|a r IH]; intros s Hwf Hs Hcap.
  - unfold count_le. cbn [sends filter length]. change (qn 0) with 0.
    unfold Qmaxq. destruct (Qle_bool 0 _) eqn:E; [apply Qle_bool_iff in E; exact E | apply Qle_refl].
  - cbn [sends]. destruct (consume s a) as [s' w] eqn:E.
    pose proof (consume_spec s a Hwf) as H. pose proof (consume_wf s a Hwf) as Hwf'.
    pose proof (wait_nonneg s a Hwf) as Hwn.
    destruct (consume_rate s a) as [Hrate Hirate].
    rewrite E in H, Hwf', Hwn, Hrate, Hirate. cbn [fst snd] in *.
    destruct Hs as [Hlo Hs].
    assert (Hs' : sorted_from (last s') r) by (rewrite (ss_last _ _ _ _ H); exact Hs).
    assert (Hcap' : tokens s' <= cap s' - 1) by (rewrite (ss_cap _ _ _ _ H); apply (ss_tok_cap _ _ _ _ H)).
    specialize (IH s' Hwf' Hs' Hcap').
    rewrite Hrate, (ss_last _ _ _ _ H) in IH.
    pose proof (ss_tok_le _ _ _ _ H) as Hle.
    pose proof (rate_pos s Hwf) as Hr. pose proof (irate_pos s Hwf) as Hir.
    pose proof (rate_irate s Hwf) as Hri.
    unfold count_le in *. cbn [filter].
    destruct (Qle_bool (a + w) u) eqn:Eu.
    + apply Qle_bool_iff in Eu. cbn [length]. rewrite qn_S.
      (* the send is <= u, hence tokens s' + rate (u - a) >= 0 *)
      assert (Hnn : 0 <= tokens s' + rate s * (u - a)).
      { destruct (Qlt_le_dec (tokens s') 0) as [Hneg|Hpos].
        - rewrite (ss_wait_debt _ _ _ _ H Hneg) in Eu.
          assert (H0 : rate s * (a + - tokens s' * irate s) <= rate s * u) by nra.
          assert (Hx : rate s * (- tokens s' * irate s) == - tokens s').
          { transitivity (- tokens s' * (rate s * irate s)); [ring | rewrite Hri; ring]. }
          lra.
        - nra. }
      unfold Qmaxq in *.
      destruct (Qle_bool 0 (tokens s' + rate s * (u - a))) eqn:E1;
        [|apply Qle_bool_false in E1; lra].
      destruct (Qle_bool 0 (tokens s + rate s * (u - last s))) eqn:E2.
      * nra.
      * apply Qle_bool_false in E2. nra.
    + unfold Qmaxq in *.
      destruct (Qle_bool 0 (tokens s' + rate s * (u - a))) eqn:E1;
      destruct (Qle_bool 0 (tokens s + rate s * (u - last s))) eqn:E2;
      try apply Qle_bool_iff in E1; try apply Qle_bool_iff in E2;
      try apply Qle_bool_false in E1; try apply Qle_bool_false in E2; try nra.
Qed.

Lemma count_win_le_count_le t L l : (count_win t L l <= count_le (t + L) l)%nat.
Proof.
  unfold count_win, count_le, in_window. induction l as [|x l IH]; cbn [filter]; [lia|].
  destruct (Qle_bool t x); destruct (Qle_bool x (t + L)); cbn [andb length]; lia.
Qed.

Lemma qn_le n m : (n <= m)%nat -> qn n <= qn m.
Proof. intros H. unfold qn. rewrite <- Zle_Qle. lia. Qed.

(* count of sends inside [t, t+L] from a state that is about to serve [arr] *)
Theorem rate_bound s arr t L :
  wf s -> sorted_from (last s) arr -> 0 <= L ->
  qn (count_win t L (sends s arr)) <= cap s + rate s * L + 1.
Proof.
  revert s. induction arr as [|a r IH]; intros s Hwf Hs HL.
  - unfold count_win. cbn [sends filter length]. change (qn 0) with 0.
    pose proof (rate_pos s Hwf). destruct Hwf as (Ht & Hp & Hc & Hcc). nra.
  - cbn [sends]. destruct (consume s a) as [s' w] eqn:E.
    pose proof (consume_spec s a Hwf) as H. pose proof (consume_wf s a Hwf) as Hwf'.
    destruct (consume_rate s a) as [Hrate Hirate].
    rewrite E in H, Hwf', Hrate, Hirate. cbn [fst snd] in *.
    destruct Hs as [Hlo Hs].
    assert (Hs' : sorted_from (last s') r) by (rewrite (ss_last _ _ _ _ H); exact Hs).
    assert (Hcap' : tokens s' <= cap s' - 1) by (rewrite (ss_cap _ _ _ _ H); apply (ss_tok_cap _ _ _ _ H)).
    pose proof (rate_pos s Hwf) as Hr. pose proof (irate_pos s Hwf) as Hir.
    pose proof (rate_irate s Hwf) as Hri.
    unfold count_win. cbn [filter]. fold (count_win t L (sends s' r)).
    destruct (in_window t L (a + w)) eqn:Ew.
    + (* first request inside the window: bound the rest by count_after *)
      cbn [length]. rewrite qn_S.
      unfold in_window in Ew. apply andb_prop in Ew. destruct Ew as [Elo Ehi].
      apply Qle_bool_iff in Elo. apply Qle_bool_iff in Ehi.
      pose proof (count_after s' r (t + L) Hwf' Hs' Hcap') as Hafter.
      pose proof (qn_le _ _ (count_win_le_count_le t L (sends s' r))) as Hle.
      fold (count_win t L (sends s' r)).
      rewrite Hrate, (ss_last _ _ _ _ H) in Hafter.
      pose proof (ss_tok_cap _ _ _ _ H) as Hc1.
      unfold Qmaxq in Hafter.
      destruct (Qle_bool 0 (tokens s' + rate s * (t + L - a))) eqn:E1.
      * destruct (Qlt_le_dec (tokens s') 0) as [Hneg|Hpos].
        -- rewrite (ss_wait_debt _ _ _ _ H Hneg) in Elo.
           assert (H0 : rate s * t <= rate s * (a + - tokens s' * irate s)) by nra.
           assert (Hx : rate s * (- tokens s' * irate s) == - tokens s').
           { transitivity (- tokens s' * (rate s * irate s)); [ring | rewrite Hri; ring]. }
           destruct Hwf as (Ht & Hp & Hc & Hcc). lra.
        -- rewrite (ss_wait_zero _ _ _ _ H Hpos) in Elo. nra.
      * destruct Hwf as (Ht & Hp & Hc & Hcc). nra.
    + specialize (IH s' Hwf' Hs' HL). rewrite Hrate, (ss_cap _ _ _ _ H) in IH.
      fold (count_win t L (sends s' r)). exact IH.
Qed.

(* an initial state built by __init__ is well formed *)
Lemma init_wf tp pd ini now : 0 < tp -> 0 < pd -> 0 <= ini -> wf (init tp pd ini now).
Proof.
  intros Ht Hp Hi. unfold wf, init, Qmaxq. cbn [tpp period tokens cap].
  destruct (Qle_bool tp ini) eqn:E.
  - apply Qle_bool_iff in E. repeat split; lra.
  - apply Qle_bool_false in E. repeat split; lra.
Qed.

Lemma init_cap tp pd ini now :
  (tp <= ini -> cap (init tp pd ini now) == ini) /\ (ini <= tp -> cap (init tp pd ini now) == tp).
Proof.
  unfold init, Qmaxq. cbn [cap]. destruct (Qle_bool tp ini) eqn:E.
  - apply Qle_bool_iff in E. split; intros; lra.
  - apply Qle_bool_false in E. split; intros; lra.
Qed.
