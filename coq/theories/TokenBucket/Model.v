(* Executable model of basana/core/token_bucket.py (TokenBucketLimiter), over exact rationals.
   The implementation is duck-typed: run with Fraction parameters and a Fraction clock it computes
   exactly these numbers (checked by the correspondence harness, harness/props/c20.py). *)
From Coq Require Import ZArith QArith List Bool.
Import ListNotations.
Open Scope Q_scope.

Record tb := mkTb {
  tpp : Q;        (* tokens_per_period *)
  period : Q;     (* period_duration *)
  cap : Q;        (* _capacity = max(tokens_per_period, initial_tokens) *)
  tokens : Q;     (* _tokens *)
  last : Q        (* _last *)
}.

Definition Qmaxq (a b : Q) : Q := if Qle_bool a b then b else a.
Definition Qminq (a b : Q) : Q := if Qle_bool a b then a else b.

(* TokenBucketLimiter.__init__ at clock [now] *)
Definition init (tp pd ini now : Q) : tb :=
  mkTb tp pd (Qmaxq tp ini) ini now.

(* TokenBucketLimiter.consume at clock [now]: returns the new state and the time to wait *)
Definition consume (s : tb) (now : Q) : tb * Q :=
  let lapse := now - last s in
  let t1 := tokens s + lapse / period s * tpp s in
  let t2 := if Qle_bool t1 (cap s) then t1 else cap s in      (* if tokens > capacity: tokens = capacity *)
  let t3 := Qred (t2 - 1) in
  let s' := mkTb (tpp s) (period s) (cap s) t3 now in
  if Qle_bool 0 t3 then (s', 0) else (s', Qred (- t3 / tpp s * period s)).

(* waits returned for a list of arrival times *)
Fixpoint waits (s : tb) (arr : list Q) : list Q :=
  match arr with
  | [] => []
  | a :: r => let '(s', w) := consume s a in w :: waits s' r
  end.

(* send times: arrival + wait *)
Fixpoint sends (s : tb) (arr : list Q) : list Q :=
  match arr with
  | [] => []
  | a :: r => let '(s', w) := consume s a in (a + w) :: sends s' r
  end.

(* correspondence verdicts *)
Inductive verdict := Agree | Diverge (k : nat) (model : Q).
Fixpoint cmp (k : nat) (m e : list Q) : verdict :=
  match m, e with
  | [], [] => Agree
  | x :: m', y :: e' => if Qeq_bool x y then cmp (S k) m' e' else Diverge k x
  | x :: _, [] => Diverge k x
  | [], _ => Diverge k 0
  end.
Definition check (tp pd ini t0 : Q) (arr expd : list Q) : verdict :=
  cmp 0 (waits (init tp pd ini t0) arr) expd.
