(* Models for C19: Bar validation (core/bar.py), CSV rows -> bar events (external/common/csv/bars.py,
   core/event_sources/csv.py: encoding detection, optional stable sort by time) and the trades -> bars aggregator
   (RealTimeTradesToBar.push_trade / _flush / the window arithmetic of main(), after the fix ae2bce6).
   Times are integer microseconds.  Decimal(str) parsing, the csv module and the codecs are Python's. *)
From Coq Require Import ZArith QArith List Bool.
Import ListNotations.
Open Scope Q_scope.

Definition Qltb (a b : Q) : bool := negb (Qle_bool b a).

Record bar := mkBar { b_begin : Z; b_open : Q; b_high : Q; b_low : Q; b_close : Q; b_volume : Q }.

(* Bar.__init__: which check fails first; None = accepted *)
Definition bar_check (o h l c : Q) : option nat :=
  if Qltb h l then Some 1%nat
  else if Qltb h o then Some 2%nat
  else if Qltb h c then Some 3%nat
  else if Qltb o l then Some 4%nat
  else if Qltb c l then Some 5%nat
  else None.

(* ---------------------------------------------------------------------------------------------- *)
(* CSV rows *)
Record row := mkRow { r_dt : Z; r_open : Q; r_high : Q; r_low : Q; r_close : Q; r_volume : Q }.
Record bar_event := mkEvt { ev_when : Z; ev_bar : bar }.

Inductive parsed := PEvents (l : list bar_event) | PInvalid.

(* RowParser.parse_row: rows without volume are skipped; Bar() may refuse the row *)
Definition parse_row (period : Z) (r : row) : parsed :=
  if Qeq_bool (r_volume r) 0 then PEvents []
  else match bar_check (r_open r) (r_high r) (r_low r) (r_close r) with
       | Some _ => PInvalid
       | None => PEvents [mkEvt (r_dt r + period) (mkBar (r_dt r) (r_open r) (r_high r) (r_low r) (r_close r) (r_volume r))]
       end.

Fixpoint parse_rows (period : Z) (rs : list row) : option (list bar_event) :=
  match rs with
  | [] => Some []
  | r :: rest => match parse_row period r, parse_rows period rest with
                 | PEvents l, Some l' => Some (l ++ l')
                 | _, _ => None
                 end
  end.

(* sorted(events, key=when): stable *)
Fixpoint insert_ev (e : bar_event) (l : list bar_event) : list bar_event :=
  match l with
  | [] => [e]
  | h :: r => if Z.leb (ev_when e) (ev_when h) then e :: h :: r else h :: insert_ev e r
  end.
Definition sort_events (l : list bar_event) : list bar_event := fold_right insert_ev [] l.

Definition load (period : Z) (sort : bool) (rs : list row) : option (list bar_event) :=
  match parse_rows period rs with
  | Some evs => Some (if sort then sort_events evs else evs)
  | None => None
  end.

(* encoding detection: first BOM of the table that is a prefix of the first 4 bytes; the table is regenerated from
   the source (gen/Tables.v); then, without BOM, the zero-byte heuristic of 58883f6 *)
Fixpoint is_prefix (p l : list N) : bool :=
  match p, l with
  | [], _ => true
  | x :: p', y :: l' => N.eqb x y && is_prefix p' l'
  | _ :: _, [] => false
  end.
Fixpoint detect_bom (table : list (list N * nat)) (raw : list N) : option (nat * nat) :=   (* (encoding id, offset) *)
  match table with
  | [] => None
  | (bom, enc) :: r => if is_prefix bom raw then Some (enc, length bom) else detect_bom r raw
  end.
(* encoding ids: 0 utf-8 (default), 1 utf-32-le, 2 utf-32-be, 3 utf-16-le, 4 utf-16-be, 5 utf-8-sig *)
Definition nz (x : N) : bool := negb (N.eqb x 0).
Definition detect_nobom (raw : list N) : nat :=
  match raw with
  | [a; b; c; d] =>
    if nz a && N.eqb b 0 && N.eqb c 0 && N.eqb d 0 then 1%nat
    else if N.eqb a 0 && N.eqb b 0 && N.eqb c 0 && nz d then 2%nat
    else if nz a && N.eqb b 0 && nz c && N.eqb d 0 then 3%nat
    else if N.eqb a 0 && nz b && N.eqb c 0 && nz d then 4%nat
    else 0%nat
  | _ => 0%nat
  end.
Definition detect (table : list (list N * nat)) (raw : list N) : nat * nat :=
  match detect_bom table raw with
  | Some r => r
  | None => (detect_nobom raw, 0%nat)
  end.

(* ---------------------------------------------------------------------------------------------- *)
(* trades -> bars *)
Record trade := mkTrade { t_when : Z; t_price : Q; t_amount : Q }.
Record agg := mkAgg {
  a_trades : list trade; a_next_ge : option Z; a_skip_first : bool;
  a_out : list bar_event; a_errors : nat }.

Definition push_trade (s : agg) (t : trade) : agg :=
  match a_next_ge s with
  | Some g => if Z.ltb (t_when t) g
              then mkAgg (a_trades s) (a_next_ge s) (a_skip_first s) (a_out s) (S (a_errors s))
              else mkAgg (a_trades s ++ [t]) (Some (t_when t)) (a_skip_first s) (a_out s) (a_errors s)
  | None => mkAgg (a_trades s ++ [t]) (Some (t_when t)) (a_skip_first s) (a_out s) (a_errors s)
  end.

Definition Qmaxq (a b : Q) : Q := if Qle_bool a b then b else a.
Definition Qminq (a b : Q) : Q := if Qle_bool a b then a else b.
Definition Qnonzero (a : Q) : bool := negb (Qeq_bool a 0).

(* the scan of _flush: (open, high, low, close, volume), errors, and the trades left for later windows *)
Fixpoint scan_trades (ts : list trade) (b e : Z) (acc : Q * Q * Q * Q * Q) (errs : nat)
  : (Q * Q * Q * Q * Q) * nat * list trade :=
  match ts with
  | [] => (acc, errs, [])
  | t :: r =>
    if Z.ltb (t_when t) b then scan_trades r b e acc (S errs)
    else if Z.ltb e (t_when t) then (acc, errs, t :: r)
    else
      let '(o, h, l, c, v) := acc in
      let o' := if Qnonzero o then o else t_price t in
      let h' := if Qnonzero h then Qmaxq h (t_price t) else t_price t in
      let l' := if Qnonzero l then Qminq l (t_price t) else t_price t in
      scan_trades r b e (o', h', l', t_price t, Qred (v + t_amount t)) errs
  end.

Definition flush (s : agg) (b e : Z) : agg :=
  let ng := match a_next_ge s with Some g => Some (Z.max g e) | None => Some e end in
  let '(acc, errs, rest) := scan_trades (a_trades s) b e (0, 0, 0, 0, 0) (a_errors s) in
  let '(o, h, l, c, v) := acc in
  let out := if Qnonzero v && negb (a_skip_first s)
             then a_out s ++ [mkEvt e (mkBar b o h l c v)] else a_out s in
  mkAgg rest ng false out errs.

Inductive aop := APush (t : trade) | AFlush (b e : Z).
Definition astep (s : agg) (o : aop) : agg :=
  match o with APush t => push_trade s t | AFlush b e => flush s b e end.
Definition arun (skip_first : bool) (ops : list aop) : agg :=
  fold_left astep ops (mkAgg [] None skip_first [] 0).

(* main(): the k-th window for a bar duration of d microseconds starting at begin0 *)
Definition window (begin0 d : Z) (k : Z) : Z * Z := (begin0 + k * d, begin0 + k * d + d - 1)%Z.
