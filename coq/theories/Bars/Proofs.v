From Coq Require Import ZArith QArith Lia Lqa List Bool Sorting.Sorted Sorting.Permutation.
From Basana Require Import Bars.Model.
From BasanaGen Require Import Tables.
Import ListNotations.
Open Scope Q_scope.

Lemma Qle_bool_false a b : Qle_bool a b = false -> b < a.
Proof. intros H. apply Qnot_le_lt. intros Hle. apply Qle_bool_iff in Hle. congruence. Qed.
Lemma Qltb_true a b : Qltb a b = true -> a < b.
Proof. unfold Qltb. intros H. apply negb_true_iff in H. apply Qle_bool_false in H. exact H. Qed.
Lemma Qltb_false a b : Qltb a b = false -> b <= a.
Proof. unfold Qltb. intros H. apply negb_false_iff in H. apply Qle_bool_iff in H. exact H. Qed.

(* ---------------------------------------------------------------------------------------------- *)
(* a bar is accepted exactly when low <= open, close <= high (and low <= high) *)
Theorem bar_accept_iff o h l c :
  bar_check o h l c = None <-> (l <= o /\ o <= h /\ l <= c /\ c <= h /\ l <= h).
Proof.
  unfold bar_check. split.
  - destruct (Qltb h l) eqn:E1; [discriminate|]. destruct (Qltb h o) eqn:E2; [discriminate|].
    destruct (Qltb h c) eqn:E3; [discriminate|]. destruct (Qltb o l) eqn:E4; [discriminate|].
    destruct (Qltb c l) eqn:E5; [discriminate|]. intros _.
    apply Qltb_false in E1, E2, E3, E4, E5. repeat split; assumption.
  - intros (H1 & H2 & H3 & H4 & H5).
    assert (F : forall a b, b <= a -> Qltb a b = false).
    { intros a b Hab. unfold Qltb. apply negb_false_iff. apply Qle_bool_iff. exact Hab. }
    rewrite (F h l H5), (F h o H2), (F h c H4), (F o l H1), (F c l H3). reflexivity.
Qed.

(* ---------------------------------------------------------------------------------------------- *)
(* CSV rows *)

Definition event_of (period : Z) (r : row) : bar_event :=
  mkEvt (r_dt r + period) (mkBar (r_dt r) (r_open r) (r_high r) (r_low r) (r_close r) (r_volume r)).

(* one event per row with non-zero volume, carrying exactly the row's values, timestamped begin + period *)
Theorem parse_rows_spec period rs evs :
  parse_rows period rs = Some evs ->
  evs = map (event_of period) (filter (fun r => negb (Qeq_bool (r_volume r) 0)) rs) /\
  Forall (fun r => Qeq_bool (r_volume r) 0 = false -> bar_check (r_open r) (r_high r) (r_low r) (r_close r) = None) rs.
Proof.
  revert evs. induction rs as [|r rest IH]; intros evs H; cbn [parse_rows] in H.
  - inversion H. split; [reflexivity | constructor].
  - unfold parse_row in H. destruct (Qeq_bool (r_volume r) 0) eqn:Ev.
    + destruct (parse_rows period rest) as [l'|] eqn:El; [|discriminate]. inversion H as [Hev]. clear H. subst evs.
      destruct (IH l' eq_refl) as [E F]. cbn [filter]. rewrite Ev. cbn [negb app]. split; [exact E|].
      constructor; [intros X; congruence | exact F].
    + destruct (bar_check _ _ _ _) eqn:Eb; [discriminate|].
      destruct (parse_rows period rest) as [l'|] eqn:El; [|discriminate]. inversion H as [Hev]. clear H. subst evs.
      destruct (IH l' eq_refl) as [E F]. cbn [filter]. rewrite Ev. cbn [negb map app]. split.
      * unfold event_of at 1. rewrite <- E. reflexivity.
      * constructor; [intros _; exact Eb | exact F].
Qed.

(* sorting: a permutation, in non-decreasing time order, stable *)
Lemma insert_ev_perm e l : Permutation (e :: l) (insert_ev e l).
Proof.
  induction l as [|h r IH]; cbn [insert_ev]; [apply Permutation_refl|].
  destruct (Z.leb (ev_when e) (ev_when h)); [apply Permutation_refl|].
  eapply Permutation_trans; [apply perm_swap | apply perm_skip; exact IH].
Qed.
Theorem sort_events_perm l : Permutation l (sort_events l).
Proof.
  unfold sort_events. induction l as [|e r IH]; cbn [fold_right]; [apply Permutation_refl|].
  eapply Permutation_trans; [apply perm_skip; exact IH | apply insert_ev_perm].
Qed.

Definition time_le (a b : bar_event) : Prop := (ev_when a <= ev_when b)%Z.

Lemma insert_ev_sorted e l : LocallySorted time_le l -> LocallySorted time_le (insert_ev e l).
Proof.
  induction l as [|h r IH]; intros Hs; cbn [insert_ev]; [constructor|].
  destruct (Z.leb (ev_when e) (ev_when h)) eqn:E.
  - apply Z.leb_le in E. constructor; assumption.
  - apply Z.leb_gt in E. inversion Hs as [| |a b r' Hs' Hab]; subst.
    + cbn [insert_ev]. constructor; [constructor | unfold time_le; lia].
    + specialize (IH Hs'). cbn [insert_ev] in *. destruct (Z.leb (ev_when e) (ev_when b)).
      * constructor; [exact IH | unfold time_le; lia].
      * constructor; [exact IH | exact Hab].
Qed.
Theorem sort_events_sorted l : LocallySorted time_le (sort_events l).
Proof.
  unfold sort_events. induction l as [|e r IH]; cbn [fold_right]; [constructor | apply insert_ev_sorted; exact IH].
Qed.

(* stable: events with the same time keep their relative order *)
Lemma insert_ev_filter e l k :
  filter (fun x => Z.eqb (ev_when x) k) (insert_ev e l) =
  filter (fun x => Z.eqb (ev_when x) k) (e :: l) \/
  False.
Proof.
  left. induction l as [|h r IH]; cbn [insert_ev]; [reflexivity|].
  destruct (Z.leb (ev_when e) (ev_when h)) eqn:E; [reflexivity|]. apply Z.leb_gt in E.
  cbn [filter] in *. rewrite IH.
  destruct (Z.eqb (ev_when e) k) eqn:E1, (Z.eqb (ev_when h) k) eqn:E2; try reflexivity.
  apply Z.eqb_eq in E1, E2. lia.
Qed.
Theorem sort_events_stable l k :
  filter (fun x => Z.eqb (ev_when x) k) (sort_events l) = filter (fun x => Z.eqb (ev_when x) k) l.
Proof.
  unfold sort_events. induction l as [|e r IH]; cbn [fold_right]; [reflexivity|].
  destruct (insert_ev_filter e (fold_right insert_ev [] r) k) as [H|[]]. rewrite H. cbn [filter]. rewrite IH. reflexivity.
Qed.

(* ---------------------------------------------------------------------------------------------- *)
(* encoding detection on the table that is in the source now *)

Theorem detect_utf32_le : detect bom_table [255; 254; 0; 0]%N = (1%nat, 4%nat).
Proof. reflexivity. Qed.
Theorem detect_utf32_be : detect bom_table [0; 0; 254; 255]%N = (2%nat, 4%nat).
Proof. reflexivity. Qed.
(* a UTF-16-LE BOM is only taken for one when the next two bytes are not both zero (the UTF-32-LE BOM starts the same) *)
Theorem detect_utf16_le a b : (a =? 0)%N && (b =? 0)%N = false -> detect bom_table [255; 254; a; b]%N = (3%nat, 2%nat).
Proof.
  intros H. destruct a as [|pa]; destruct b as [|pb]; cbn in H; try discriminate; reflexivity.
Qed.
Theorem detect_utf16_be a b : detect bom_table [254; 255; a; b]%N = (4%nat, 2%nat).
Proof. reflexivity. Qed.
Theorem detect_utf8_sig a : detect bom_table [239; 187; 191; a]%N = (5%nat, 3%nat).
Proof. reflexivity. Qed.
(* without a BOM, an ASCII first character decides *)
Theorem detect_nobom_cases a b :
  (0 < a < 128)%N -> (0 < b < 128)%N ->
  detect bom_table [a; 0; 0; 0]%N = (1%nat, 0%nat) /\ detect bom_table [0; 0; 0; a]%N = (2%nat, 0%nat) /\
  detect bom_table [a; 0; b; 0]%N = (3%nat, 0%nat) /\ detect bom_table [0; a; 0; b]%N = (4%nat, 0%nat) /\
  detect bom_table [a; b; a; b]%N = (0%nat, 0%nat).
Proof.
  intros Ha Hb.
  destruct a as [|pa]; [lia|]. destruct b as [|pb]; [lia|].
  assert (E1 : Pos.eqb 255 pa = false) by (apply Pos.eqb_neq; lia).
  assert (E2 : Pos.eqb 254 pa = false) by (apply Pos.eqb_neq; lia).
  assert (E3 : Pos.eqb 239 pa = false) by (apply Pos.eqb_neq; lia).
  unfold detect, bom_table, detect_nobom, nz. cbn [detect_bom is_prefix N.eqb andb negb].
  rewrite ?E1, ?E2, ?E3. cbn [andb negb]. repeat split; reflexivity.
Qed.

(* ---------------------------------------------------------------------------------------------- *)
(* trades -> bars: the windows of main() tile the time line: every instant belongs to exactly one window *)
Theorem windows_partition begin0 d t :
  (0 < d)%Z -> (begin0 <= t)%Z ->
  exists k, (0 <= k)%Z /\ (fst (window begin0 d k) <= t <= snd (window begin0 d k))%Z /\
            forall k', (fst (window begin0 d k') <= t <= snd (window begin0 d k'))%Z -> k' = k.
Proof.
  intros Hd Ht. exists ((t - begin0) / d)%Z. unfold window. cbn [fst snd].
  pose proof (Z.div_mod (t - begin0) d ltac:(lia)) as Hdm.
  pose proof (Z.mod_pos_bound (t - begin0) d Hd) as Hmod.
  split; [apply Z.div_pos; lia|]. split; [nia|].
  intros k' Hk'. 
  assert (H1 : (k' * d <= t - begin0 < k' * d + d)%Z) by lia.
  apply (Z.div_unique_pos (t - begin0) d k' (t - begin0 - k' * d)); lia.
Qed.

(* consecutive windows touch: the next one begins right after this one ends *)
Theorem windows_consecutive begin0 d k : fst (window begin0 d (k + 1)) = (snd (window begin0 d k) + 1)%Z.
Proof. unfold window. cbn [fst snd]. lia. Qed.

(* ---------------------------------------------------------------------------------------------- *)
(* one flush: which trades go into the bar, and what the bar says about them *)

Definition acc_step (acc : Q * Q * Q * Q * Q) (t : trade) : Q * Q * Q * Q * Q :=
  let '(o, h, l, c, v) := acc in
  ((if Qnonzero o then o else t_price t),
   (if Qnonzero h then Qmaxq h (t_price t) else t_price t),
   (if Qnonzero l then Qminq l (t_price t) else t_price t),
   t_price t, Qred (v + t_amount t)).

Fixpoint sorted_trades (lo : Z) (ts : list trade) : Prop :=
  match ts with [] => True | t :: r => (lo <= t_when t)%Z /\ sorted_trades (t_when t) r end.

Lemma sorted_trades_weaken lo lo' ts : (lo' <= lo)%Z -> sorted_trades lo ts -> sorted_trades lo' ts.
Proof. destruct ts as [|t r]; cbn [sorted_trades]; [auto|]. intros H [H1 H2]. split; [lia | exact H2]. Qed.

Lemma sorted_trades_all_ge lo ts : sorted_trades lo ts -> Forall (fun t => (lo <= t_when t)%Z) ts.
Proof.
  revert lo. induction ts as [|t r IH]; intros lo H; [constructor|]. destruct H as [H1 H2]. constructor; [exact H1|].
  apply IH. eapply sorted_trades_weaken; [|exact H2]. exact H1.
Qed.

(* on trades in time order that are not older than the window, the scan takes exactly those dated <= end, in
   order, and leaves exactly the later ones for the next windows; nothing is reported as out of order *)
Theorem scan_sorted ts : forall b e acc errs,
  sorted_trades b ts ->
  scan_trades ts b e acc errs =
  (fold_left acc_step (filter (fun t => Z.leb (t_when t) e) ts) acc, errs,
   filter (fun t => Z.ltb e (t_when t)) ts).
Proof.
  induction ts as [|t r IH]; intros b e acc errs Hs; cbn [scan_trades filter fold_left]; [reflexivity|].
  destruct Hs as [Hb Hr].
  assert (E1 : Z.ltb (t_when t) b = false) by (apply Z.ltb_ge; exact Hb). rewrite E1.
  destruct (Z.ltb e (t_when t)) eqn:E2.
  - apply Z.ltb_lt in E2. assert (E3 : Z.leb (t_when t) e = false) by (apply Z.leb_gt; exact E2). rewrite E3.
    (* everything after t is later still *)
    pose proof (sorted_trades_all_ge _ _ Hr) as Hall.
    assert (F1 : filter (fun t0 => Z.leb (t_when t0) e) r = []).
    { clear -Hall E2. induction r as [|x r IH]; [reflexivity|]. inversion Hall; subst. cbn [filter].
      assert (X : Z.leb (t_when x) e = false) by (apply Z.leb_gt; lia). rewrite X. apply IH. assumption. }
    assert (F2 : filter (fun t0 => Z.ltb e (t_when t0)) r = r).
    { clear -Hall E2. induction r as [|x r IH]; [reflexivity|]. inversion Hall; subst. cbn [filter].
      assert (X : Z.ltb e (t_when x) = true) by (apply Z.ltb_lt; lia). rewrite X. f_equal. apply IH. assumption. }
    rewrite F1, F2. reflexivity.
  - apply Z.ltb_ge in E2. assert (E3 : Z.leb (t_when t) e = true) by (apply Z.leb_le; exact E2). rewrite E3.
    cbn [fold_left]. destruct acc as [[[[o h] l] c] v].
    rewrite (IH b e _ errs (sorted_trades_weaken _ _ _ Hb Hr)). reflexivity.
Qed.

(* open / high / low / close / volume of the accumulated trades *)
Definition prices (ts : list trade) : list Q := map t_price ts.

Record ohlcv_ok (ts : list trade) (acc : Q * Q * Q * Q * Q) : Prop := {
  ok_open : fst (fst (fst (fst acc))) = hd 0 (prices ts);
  ok_close : snd (fst acc) = last (prices ts) 0;
  ok_high_ub : forall p, In p (prices ts) -> p <= snd (fst (fst (fst acc)));
  ok_high_in : In (snd (fst (fst (fst acc)))) (prices ts);
  ok_low_lb : forall p, In p (prices ts) -> snd (fst (fst acc)) <= p;
  ok_low_in : In (snd (fst (fst acc))) (prices ts);
  ok_volume : snd acc == fold_right (fun t s => t_amount t + s) 0 ts
}.

Lemma Qnonzero_pos x : 0 < x -> Qnonzero x = true.
Proof.
  intros H. unfold Qnonzero. apply negb_true_iff. destruct (Qeq_bool x 0) eqn:E; [|reflexivity].
  apply Qeq_bool_iff in E. lra.
Qed.

Lemma Qmaxq_cases a b : (Qmaxq a b = a /\ b <= a) \/ (Qmaxq a b = b /\ a <= b).
Proof. unfold Qmaxq. destruct (Qle_bool a b) eqn:E; [right; apply Qle_bool_iff in E | left; apply Qle_bool_false in E]; split; try reflexivity; lra. Qed.
Lemma Qminq_cases a b : (Qminq a b = a /\ a <= b) \/ (Qminq a b = b /\ b <= a).
Proof. unfold Qminq. destruct (Qle_bool a b) eqn:E; [left; apply Qle_bool_iff in E | right; apply Qle_bool_false in E]; split; try reflexivity; lra. Qed.

Lemma last_app_single {A} (l : list A) x d : last (l ++ [x]) d = x.
Proof.
  induction l as [|y r IH]; [reflexivity|]. cbn [app].
  destruct (r ++ [x]) as [|z zs] eqn:E; [destruct r; discriminate E|]. change (last (y :: z :: zs) d) with (last (z :: zs) d).
  exact IH.
Qed.

Lemma fold_right_amount_app ts t :
  fold_right (fun t s => t_amount t + s) 0 (ts ++ [t]) == fold_right (fun t s => t_amount t + s) 0 ts + t_amount t.
Proof. induction ts as [|x r IH]; cbn [app fold_right]; [lra | rewrite IH; lra]. Qed.

Lemma ohlcv_step seen t acc :
  seen <> [] -> Forall (fun x => 0 < t_price x) (seen ++ [t]) ->
  ohlcv_ok seen acc -> ohlcv_ok (seen ++ [t]) (acc_step acc t).
Proof.
  intros Hne Hpos [Ho Hc Hhu Hhi Hll Hli Hv]. destruct acc as [[[[o h] l] c] v]. cbn [fst snd] in *.
  assert (Hp : forall p, In p (prices seen) -> 0 < p).
  { intros p Hin. unfold prices in Hin. apply in_map_iff in Hin. destruct Hin as (x & E & Hx). subst p.
    rewrite Forall_forall in Hpos. apply Hpos. apply in_or_app. left. exact Hx. }
  assert (Ho0 : 0 < o).
  { rewrite Ho. destruct seen as [|s0 r]; [congruence|]. apply Hp. left. reflexivity. }
  assert (Hh0 : 0 < h) by (apply Hp; exact Hhi).
  assert (Hl0 : 0 < l) by (apply Hp; exact Hli).
  unfold acc_step. rewrite (Qnonzero_pos o Ho0), (Qnonzero_pos h Hh0), (Qnonzero_pos l Hl0).
  constructor; cbn [fst snd]; unfold prices in *; rewrite ?map_app; cbn [map].
  - destruct seen as [|s0 r]; [congruence|]. exact Ho.
  - rewrite last_app_single. reflexivity.
  - intros p Hin. apply in_app_or in Hin. destruct (Qmaxq_cases h (t_price t)) as [[E Hle]|[E Hle]]; rewrite E;
      destruct Hin as [Hin|[Hin|[]]]; try (subst p); try lra; try (specialize (Hhu p Hin); lra).
  - apply in_or_app. destruct (Qmaxq_cases h (t_price t)) as [[E _]|[E _]]; rewrite E; [left; exact Hhi | right; left; reflexivity].
  - intros p Hin. apply in_app_or in Hin. destruct (Qminq_cases l (t_price t)) as [[E Hle]|[E Hle]]; rewrite E;
      destruct Hin as [Hin|[Hin|[]]]; try (subst p); try lra; try (specialize (Hll p Hin); lra).
  - apply in_or_app. destruct (Qminq_cases l (t_price t)) as [[E _]|[E _]]; rewrite E; [left; exact Hli | right; left; reflexivity].
  - rewrite Qred_correct, fold_right_amount_app, Hv. reflexivity.
Qed.

Lemma ohlcv_first t : 0 < t_price t -> ohlcv_ok [t] (acc_step (0, 0, 0, 0, 0) t).
Proof.
  intros Hp. unfold acc_step. change (Qnonzero 0) with false. cbn [negb].
  constructor; cbn [fst snd prices map hd last fold_right]; try reflexivity.
  - intros p [E|[]]. subst p. lra.
  - left. reflexivity.
  - intros p [E|[]]. subst p. lra.
  - left. reflexivity.
  - rewrite Qred_correct. lra.
Qed.

Lemma fold_left_app_single {A B} (f : A -> B -> A) l x a : fold_left f (l ++ [x]) a = f (fold_left f l a) x.
Proof. rewrite fold_left_app. reflexivity. Qed.

(* the bar of a non-empty list of trades with positive prices: first / max / min / last price, summed amount *)
Theorem ohlcv_correct ts :
  ts <> [] -> Forall (fun x => 0 < t_price x) ts -> ohlcv_ok ts (fold_left acc_step ts (0, 0, 0, 0, 0)).
Proof.
  intros Hne Hpos. induction ts as [|t r IH] using rev_ind; [congruence|].
  rewrite fold_left_app_single. destruct r as [|r0 rr].
  - cbn [app fold_left]. apply ohlcv_first. inversion Hpos; assumption.
  - apply ohlcv_step; [discriminate | exact Hpos|]. apply IH; [discriminate|].
    apply Forall_app in Hpos. tauto.
Qed.

(* a flush on trades in time order: the bar is built from exactly the trades of the window and emitted at its end;
   the later trades stay, still in time order, for the next window *)
Theorem flush_spec s b e :
  sorted_trades b (a_trades s) ->
  let inwin := filter (fun t => Z.leb (t_when t) e) (a_trades s) in
  let '(o, h, l, c, v) := fold_left acc_step inwin (0, 0, 0, 0, 0) in
  a_trades (flush s b e) = filter (fun t => Z.ltb e (t_when t)) (a_trades s) /\
  a_errors (flush s b e) = a_errors s /\
  a_out (flush s b e) = (if Qnonzero v && negb (a_skip_first s) then a_out s ++ [mkEvt e (mkBar b o h l c v)] else a_out s).
Proof.
  intros Hs inwin. unfold flush. rewrite (scan_sorted _ b e _ _ Hs). fold inwin.
  destruct (fold_left acc_step inwin (0, 0, 0, 0, 0)) as [[[[o h] l] c] v]. cbn [a_trades a_errors a_out].
  repeat split; reflexivity.
Qed.

(* a trade that arrives for a window that was already flushed is reported, not added *)
Theorem late_trade_rejected s t g :
  a_next_ge s = Some g -> (t_when t < g)%Z ->
  a_trades (push_trade s t) = a_trades s /\ a_errors (push_trade s t) = S (a_errors s).
Proof.
  intros Hg Hlt. unfold push_trade. rewrite Hg. assert (E : Z.ltb (t_when t) g = true) by (apply Z.ltb_lt; exact Hlt).
  rewrite E. split; reflexivity.
Qed.
