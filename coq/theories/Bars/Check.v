(* correspondence checkers for the Bars models (evaluated by vm_compute on cases written by harness/props/c19.py) *)
From Coq Require Import ZArith QArith List Bool.
From Basana Require Import Bars.Model.
From BasanaGen Require Import Tables.
Import ListNotations.
Open Scope Q_scope.

Definition check_guard (cases : list (Q * Q * Q * Q * bool)) : bool :=
  forallb (fun x => let '(o, h, l, c, acc) := x in
                    Bool.eqb (match bar_check o h l c with None => true | Some _ => false end) acc) cases.

Definition bar_eqb (a b : bar) : bool :=
  Z.eqb (b_begin a) (b_begin b) && Qeq_bool (b_open a) (b_open b) && Qeq_bool (b_high a) (b_high b) &&
  Qeq_bool (b_low a) (b_low b) && Qeq_bool (b_close a) (b_close b) && Qeq_bool (b_volume a) (b_volume b).
Definition evt_eqb (a b : bar_event) : bool := Z.eqb (ev_when a) (ev_when b) && bar_eqb (ev_bar a) (ev_bar b).
Fixpoint evts_eqb (a b : list bar_event) : bool :=
  match a, b with
  | [], [] => true
  | x :: a', y :: b' => evt_eqb x y && evts_eqb a' b'
  | _, _ => false
  end.

(* observed = None when the source raised (an invalid bar) *)
Definition check_csv (period : Z) (sort : bool) (rows : list row) (observed : option (list bar_event)) : bool :=
  match load period sort rows, observed with
  | Some m, Some o => evts_eqb m o
  | None, None => true
  | _, _ => false
  end.

Definition check_detect (raw : list N) (enc : nat) : bool := Nat.eqb (fst (detect bom_table raw)) enc.

Definition check_agg (skip_first : bool) (ops : list aop) (out : list bar_event) (errors left : nat) : bool :=
  let s := arun skip_first ops in
  evts_eqb (a_out s) out && Nat.eqb (a_errors s) errors && Nat.eqb (length (a_trades s)) left.

Definition check_windows (begin0 d : Z) (obs : list (Z * Z * Z)) : bool :=
  forallb (fun x => let '(k, b, e) := x in
                    Z.eqb (fst (window begin0 d k)) b && Z.eqb (snd (window begin0 d k)) e) obs.
