(* C19 — Bars built from CSV rows and live trades are faithful.  Property theorems only.
   The BOM table is regenerated from the source on every run (gen/Tables.v), so the detection theorems are re-checked
   against the table that is in /repo now.  Decimal(str) parsing, the csv module and the codecs are Python's
   (C19_partial: exercised on generated files in UTF-8/16/32, LE/BE, with and without BOM, not proved). *)
From Coq Require Import ZArith QArith List Sorting.Sorted Sorting.Permutation.
From Basana Require Import Bars.Model Bars.Proofs.
From BasanaGen Require Import Tables.
Import ListNotations.
Open Scope Q_scope.

Theorem C19_bar_accept_iff : forall o h l c,
  bar_check o h l c = None <-> (l <= o /\ o <= h /\ l <= c /\ c <= h /\ l <= h).
Proof. exact bar_accept_iff. Qed.
Print Assumptions C19_bar_accept_iff.

(* one event per row with non-zero volume, exactly the row's values, timestamped begin + period, in row order *)
Theorem C19_csv_rows : forall period rs evs,
  parse_rows period rs = Some evs ->
  evs = map (event_of period) (filter (fun r => negb (Qeq_bool (r_volume r) 0)) rs) /\
  Forall (fun r => Qeq_bool (r_volume r) 0 = false -> bar_check (r_open r) (r_high r) (r_low r) (r_close r) = None) rs.
Proof. exact parse_rows_spec. Qed.
Print Assumptions C19_csv_rows.

Theorem C19_sort_is_a_permutation : forall l, Permutation l (sort_events l).
Proof. exact sort_events_perm. Qed.
Print Assumptions C19_sort_is_a_permutation.
Theorem C19_sort_is_in_time_order : forall l, LocallySorted time_le (sort_events l).
Proof. exact sort_events_sorted. Qed.
Print Assumptions C19_sort_is_in_time_order.
Theorem C19_sort_is_stable : forall l k,
  filter (fun x => Z.eqb (ev_when x) k) (sort_events l) = filter (fun x => Z.eqb (ev_when x) k) l.
Proof. exact sort_events_stable. Qed.
Print Assumptions C19_sort_is_stable.

(* encoding detection, on the table in the source *)
Theorem C19_detect_utf32_le : detect bom_table [255; 254; 0; 0]%N = (1%nat, 4%nat).
Proof. exact detect_utf32_le. Qed.
Print Assumptions C19_detect_utf32_le.
Theorem C19_detect_utf32_be : detect bom_table [0; 0; 254; 255]%N = (2%nat, 4%nat).
Proof. exact detect_utf32_be. Qed.
Print Assumptions C19_detect_utf32_be.
Theorem C19_detect_utf16_le : forall a b,
  (a =? 0)%N && (b =? 0)%N = false -> detect bom_table [255; 254; a; b]%N = (3%nat, 2%nat).
Proof. exact detect_utf16_le. Qed.
Print Assumptions C19_detect_utf16_le.
Theorem C19_detect_utf16_be : forall a b, detect bom_table [254; 255; a; b]%N = (4%nat, 2%nat).
Proof. exact detect_utf16_be. Qed.
Print Assumptions C19_detect_utf16_be.
Theorem C19_detect_utf8_sig : forall a, detect bom_table [239; 187; 191; a]%N = (5%nat, 3%nat).
Proof. exact detect_utf8_sig. Qed.
Print Assumptions C19_detect_utf8_sig.
Theorem C19_detect_without_bom : forall a b,
  (0 < a < 128)%N -> (0 < b < 128)%N ->
  detect bom_table [a; 0; 0; 0]%N = (1%nat, 0%nat) /\ detect bom_table [0; 0; 0; a]%N = (2%nat, 0%nat) /\
  detect bom_table [a; 0; b; 0]%N = (3%nat, 0%nat) /\ detect bom_table [0; a; 0; b]%N = (4%nat, 0%nat) /\
  detect bom_table [a; b; a; b]%N = (0%nat, 0%nat).
Proof. exact detect_nobom_cases. Qed.
Print Assumptions C19_detect_without_bom.

(* trades -> bars: every instant belongs to exactly one window (windows end one microsecond before the next) *)
Theorem C19_windows_partition : forall begin0 d t,
  (0 < d)%Z -> (begin0 <= t)%Z ->
  exists k, (0 <= k)%Z /\ (fst (window begin0 d k) <= t <= snd (window begin0 d k))%Z /\
            forall k', (fst (window begin0 d k') <= t <= snd (window begin0 d k'))%Z -> k' = k.
Proof. exact windows_partition. Qed.
Print Assumptions C19_windows_partition.

(* a flush on trades in time order: exactly the trades of the window go into the bar, emitted at the window's end;
   the later ones stay for the next window; nothing is reported *)
Theorem C19_flush : forall s b e,
  sorted_trades b (a_trades s) ->
  let inwin := filter (fun t => Z.leb (t_when t) e) (a_trades s) in
  let '(o, h, l, c, v) := fold_left acc_step inwin (0, 0, 0, 0, 0) in
  a_trades (flush s b e) = filter (fun t => Z.ltb e (t_when t)) (a_trades s) /\
  a_errors (flush s b e) = a_errors s /\
  a_out (flush s b e) = (if Qnonzero v && negb (a_skip_first s) then a_out s ++ [mkEvt e (mkBar b o h l c v)] else a_out s).
Proof. exact flush_spec. Qed.
Print Assumptions C19_flush.

(* ... and the bar says: first / max / min / last price and the summed amount of those trades *)
Theorem C19_ohlcv : forall ts,
  ts <> [] -> Forall (fun x => 0 < t_price x) ts -> ohlcv_ok ts (fold_left acc_step ts (0, 0, 0, 0, 0)).
Proof. exact ohlcv_correct. Qed.
Print Assumptions C19_ohlcv.

Theorem C19_late_trade_reported : forall s t g,
  a_next_ge s = Some g -> (t_when t < g)%Z ->
  a_trades (push_trade s t) = a_trades s /\ a_errors (push_trade s t) = S (a_errors s).
Proof. exact late_trade_rejected. Qed.
Print Assumptions C19_late_trade_reported.

(* non-vacuity: the witness of the repaired defect D11 -- a trade 0.5 ms before the end of a 60 s window is in its bar *)
Example C19_d11_witness :
  let w := window 0 60000000 0 in
  let s := arun false [APush (mkTrade 10 100 1); APush (mkTrade 59999500 102 1); APush (mkTrade 60000000 103 1);
                       AFlush (fst w) (snd w)] in
  map (fun e => Qeq_bool (b_volume (ev_bar e)) 2) (a_out s) = [true] /\ a_errors s = 0%nat /\ length (a_trades s) = 1%nat.
Proof. vm_compute. repeat split; reflexivity. Qed.
