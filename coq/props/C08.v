(* C08 — Fills respect bar liquidity and instrument precision.  Property theorems only.
   Proved: every fill's base amount is the truncation, its quote amount the rounding and its fee the rounding-up to
   the pair's precision (so all three are on the grid); what a fill takes from the bar's liquidity never exceeds
   what is left, and the used liquidity never exceeds the bar's share; market and stop orders need the whole pending
   amount to fit.  Proved over every reachable state: what one bar fills, summed over all orders, is
   between 0 and the share of the bar's volume granted by the liquidity model (BarLiquidity.v).
   Proved over every reachable state (BalanceGrid.v): balances, amounts on hold, borrowed and available amounts are
   multiples of the symbol's precision, given initial balances and explicitly requested loan amounts on the grid and no
   pair configured finer than its symbols -- also after rejected requests and operations that aborted half-way. *)
From Coq Require Import ZArith QArith Qround List.
From Basana Require Import Num.DecQ Num.DecQProofs Exchange.Model Exchange.OrderProofs Exchange.FeeProofs
     Exchange.LifeProofs Exchange.Prims Exchange.Structure Exchange.LedgerProofs Exchange.BarLiquidity
     Exchange.Reconfig Exchange.ReconfigProofs
     Exchange.FillTimes Exchange.GridProofs Exchange.BalanceGrid.
Import ListNotations.
Open Scope Q_scope.

Theorem C08_fill_amounts_on_grid : forall bp qp bv qv b' q',
  round_bu (bp, qp) (Some bv) (Some qv) = (Some b', Some q') -> on_grid bp b' /\ on_grid qp q'.
Proof. exact round_bu_on_grid. Qed.
Print Assumptions C08_fill_amounts_on_grid.

Theorem C08_fee_on_grid : forall c qp o qv fee,
  calc_fee c qp o qv = Ok fee -> fee_val fee <= 0 /\ on_grid qp (fee_val fee).
Proof. exact fee_charge_nonpos. Qed.
Print Assumptions C08_fee_on_grid.

(* taking liquidity keeps 0 <= used <= total; it fails instead of exceeding what is left *)
Theorem C08_liquidity_never_exceeded : forall l amount l',
  liq_ok l -> 0 <= amount -> take_liquidity l amount = Ok l' ->
  liq_ok l' /\ match l, l' with
               | Some (t, u), Some (t', u') => t' = t /\ u' == u + amount
               | None, None => True
               | _, _ => False
               end.
Proof. exact take_liquidity_ok. Qed.
Print Assumptions C08_liquidity_never_exceeded.

Theorem C08_market_needs_whole_amount_to_fit : forall c l o b bv qv h t u,
  impact_cfg_ok c -> bar_ok b -> o_kind o = KMarket -> l = Some (t, u) ->
  balance_updates c l o b = Ok (Some (bv, qv), h) -> pending o <= t - u.
Proof. exact market_fits. Qed.
Print Assumptions C08_market_needs_whole_amount_to_fit.

Theorem C08_limit_partial_fill_fits : forall l x t u, l = Some (t, u) -> min_avail x l <= t - u.
Proof. exact min_avail_le. Qed.
Print Assumptions C08_limit_partial_fill_fits.

(* truncation never increases a base amount: the truncated fill still fits *)
Theorem C08_truncation_shrinks : forall p q, 0 <= q -> 0 <= qtrunc p q /\ qtrunc p q <= q.
Proof. exact qtrunc_nonneg. Qed.
Print Assumptions C08_truncation_shrinks.

(* within one bar, in any reachable state: the total base amount filled across all orders (tfa = sum of the filled
   amounts of all orders) grows by at most the share of the bar's volume that the liquidity model grants *)
Theorem C08_bar_fills_within_liquidity : forall c initial ops p when b s' u lp ip,
  c_liq c = VolShare lp ip -> 0 <= lp -> ops_ok ops -> 0 <= b_volume b ->
  let s := run c (init_st initial) ops in
  on_bar c s p when b = Done s' u ->
  0 <= tfa s' - tfa s /\ tfa s' - tfa s <= b_volume b * (lp / 100).
Proof. exact bar_fills_within_liquidity_reachable. Qed.
Print Assumptions C08_bar_fills_within_liquidity.

Example C08_bar_nonvacuous :
  let c := mkCfg [(1%positive, 2%nat); (2%positive, 2%nat)] [] None NoFee (VolShare 25 0) NoLoans in
  let p := (1%positive, 2%positive) in
  let ops := [OBar p 60%Z (mkBar 100 100 100 100 10); OCreate (KLimit 100) Buy p 5 false false;
              OCreate (KLimit 100) Buy p 1 false false] in
  let s := run c (init_st [(2%positive, 1000)]) ops in
  match on_bar c s p 120%Z (mkBar 100 100 100 100 8) with
  | Done s' _ => Qeq_bool (tfa s' - tfa s) 2 = true       (* 25% of 8: the first order takes it all *)
  | Fail _ _ => False
  end.
Proof. vm_compute. reflexivity. Qed.

(* the precision a fill is rounded with is the one configured when the fill happens: the setters of the exchange take
   effect from the next operation on (the model looks the pair up afresh in every operation, like Config.get_pair_info) *)
Theorem C08_set_pair_info_takes_effect_at_once : forall c pr bq,
  get_pair_info (reconf c (XPairInfo pr bq)) pr = Ok bq.
Proof. exact set_pair_info_effective. Qed.
Print Assumptions C08_set_pair_info_takes_effect_at_once.

Theorem C08_set_symbol_precision_takes_effect_at_once : forall c p b q,
  fst p <> snd p -> lookup_pair (c_pair_info c) p = None ->
  (lookup_sym (c_sym_prec c) (snd p) = Some q -> get_pair_info (reconf c (XSymPrec (fst p) b)) p = Ok (b, q)) /\
  (lookup_sym (c_sym_prec c) (fst p) = Some b -> get_pair_info (reconf c (XSymPrec (snd p) q)) p = Ok (b, q)).
Proof. exact set_symbol_precision_effective. Qed.
Print Assumptions C08_set_symbol_precision_takes_effect_at_once.

(* whole history: in every state reachable through any operation sequence, every order's filled amount is a multiple
   of the base precision and its traded quote amount and fees are multiples of the quote precision configured for its
   pair -- and so is every single fill recorded on it *)
Theorem C08_order_amounts_on_grid_in_every_reachable_state : forall c initial ops i o bp qp,
  cfg_ok c -> ops_ok ops ->
  nth_error (s_orders (run c (init_st initial) ops)) i = Some o ->
  get_pair_info c (o_pair o) = Ok (bp, qp) ->
  on_grid bp (filled o) /\ on_grid qp (qfilled o) /\ on_grid qp (o_fee o) /\
  Forall (fun f => on_grid bp (f_base f) /\ on_grid qp (f_quote f) /\ on_grid qp (f_fee f)) (o_fills o).
Proof. exact order_amounts_on_grid. Qed.
Print Assumptions C08_order_amounts_on_grid_in_every_reachable_state.

Theorem C08_order_amounts_are_the_sums_of_its_fills : forall c initial ops i o,
  cfg_ok c -> ops_ok ops ->
  nth_error (s_orders (run c (init_st initial) ops)) i = Some o ->
  o_fb o == fsum f_base (o_fills o) /\ o_fq o == fsum f_quote (o_fills o) /\ o_fee o == fsum f_fee (o_fills o).
Proof. exact order_amounts_are_fill_sums. Qed.
Print Assumptions C08_order_amounts_are_the_sums_of_its_fills.

(* the premises are met by a history with two partial fills, a fee with a minimum, and off-grid raw amounts *)
Example C08_grid_premises_met :
  let c := mkCfg [(1%positive, 2%nat); (2%positive, 2%nat)] [] None (PctFee (1#4) (1#100)) (VolShare 25 0) NoLoans in
  let p := (1%positive, 2%positive) in
  let ops := [OBar p 60%Z (mkBar 100 100 100 100 10); OCreate (KLimit (10001#100)) Buy p 5 false false;
              OBar p 120%Z (mkBar 100 101 99 100 (37#3)); OBar p 180%Z (mkBar 100 101 99 100 (41#7))] in
  let s := run c (init_st [(2%positive, 1000)]) ops in
  cfg_ok c /\ ops_ok ops /\
  match nth_error (s_orders s) 0 with
  | Some o => get_pair_info c (o_pair o) = Ok (2%nat, 2%nat) /\ length (o_fills o) = 2%nat /\ Qeq_bool (filled o) (454#100) = true
  | None => False
  end.
Proof.
  cbv zeta. split; [unfold cfg_ok; cbn; discriminate|]. split; [repeat constructor; cbn; discriminate|].
  vm_compute. repeat split; reflexivity.
Qed.

(* whole history: no sub-precision dust.  In every reachable state the balance, the amount on hold, the borrowed amount
   and the available amount of every symbol with a configured precision are multiples of that precision -- provided the
   initial balances and the amounts of explicitly requested loans are ([eG initial], [op_grid]) and no pair is configured
   with a finer precision than its symbols ([pairs_fit]; true of every configuration that derives the pairs' precisions
   from the symbols').  No premise on what happened before: rejected requests and operations that aborted with an
   internal error included. *)
Theorem C08_balances_on_grid_in_every_reachable_state : forall c initial ops x p,
  pairs_fit c -> eG c initial -> Forall (op_grid c) ops -> get_sym_prec c x = Ok p ->
  let a := s_acct (run c (init_st initial) ops) in
  on_grid p (vget (bal a) x) /\ on_grid p (vget (hold a) x) /\ on_grid p (vget (bor a) x) /\ on_grid p (avail a x).
Proof. exact balances_on_grid. Qed.
Print Assumptions C08_balances_on_grid_in_every_reachable_state.

Theorem C08_derived_pair_precisions_fit : forall c, c_pair_info c = [] -> c_default_pair c = None -> pairs_fit c.
Proof. exact pairs_fit_derived. Qed.
Print Assumptions C08_derived_pair_precisions_fit.

(* the premises are met: loans, an auto-borrowing order, partial fills with a fee that needs rounding up, interest
   truncated to the grid; every reported amount is a multiple of 0.01 (USD) / 0.001 (BTC) *)
Example C08_balance_grid_premises_met :
  let cnd := mkCond 2%positive 7 3600000000%Z (1#100) (1#2) in
  let c := mkCfg [(1%positive, 3%nat); (2%positive, 2%nat)] [] None (PctFee (33#100) 0) (VolShare 25 0)
                 (Margin 2%positive (Some cnd) []) in
  let p := (1%positive, 2%positive) in
  let initial := [(1%positive, 1#2); (2%positive, 100000#100)] in
  let ops := [OBar p 60000000%Z (mkBar (10033#100) (10133#100) (9933#100) (10033#100) (37#3));
              OLoan 2%positive (25050#100); OCreate (KLimit (10101#100)) Buy p (4321#1000) true true;
              OBar p 120000000%Z (mkBar (10033#100) (10133#100) (9933#100) (10077#100) (37#3));
              OBar p 1920000000%Z (mkBar (10077#100) (10133#100) (9933#100) (10077#100) 40); ORepay 0%nat] in
  let a := s_acct (run c (init_st initial) ops) in
  pairs_fit c /\ eG c initial /\ Forall (op_grid c) ops /\
  map (fun x => Qred (vget (bal a) x * 1000)) [1%positive; 2%positive] =
    map (fun x => inject_Z (Qfloor (vget (bal a) x * 1000))) [1%positive; 2%positive] /\
  Qeq_bool (vget (bal a) 1%positive) (1#2) = false.
Proof.
  cbv zeta. split; [apply pairs_fit_derived; reflexivity|].
  split.
  - intros kv [<-|[<-|[]]] q Hq; cbn in Hq; inversion Hq; subst q; [exists 500%Z | exists 100000%Z]; vm_compute; reflexivity.
  - split.
    + repeat constructor. intros q Hq. cbn in Hq. inversion Hq; subst q. exists 25050%Z. vm_compute. reflexivity.
    + vm_compute. split; reflexivity.
Qed.
