(* C08 — Fills respect bar liquidity and instrument precision.  Property theorems only.
   Proved: every fill's base amount is the truncation, its quote amount the rounding and its fee the rounding-up to
   the pair's precision (so all three are on the grid); what a fill takes from the bar's liquidity never exceeds
   what is left, and the used liquidity never exceeds the bar's share; market and stop orders need the whole pending
   amount to fit.  C08_partial: the sum over all orders of a bar and the on-grid invariant of balances over whole
   histories are validated by the correspondence check and the monitor. *)
From Coq Require Import ZArith QArith List.
From Basana Require Import Num.DecQ Num.DecQProofs Exchange.Model Exchange.OrderProofs Exchange.FeeProofs
     Exchange.LifeProofs.
Import ListNotations.
Open Scope Q_scope.

Theorem C08_fill_amounts_on_grid : forall bp qp bv qv b' q',
  round_bu (bp, qp) (Some bv) (Some qv) = (Some b', Some q') -> on_grid bp b' /\ on_grid qp q'.
Proof. exact round_bu_on_grid. Qed.
Print Assumptions C08_fill_amounts_on_grid.

Theorem C08_fee_on_grid : forall c qp o qv fee,
  calc_fee c qp o qv = Ok fee -> fee_val fee <= 0 /\ on_grid qp (fee_val fee).
Proof. exact fee_charge_nonpos. Qed.
Print Assumptions C08_fee_on_grid.

(* taking liquidity keeps 0 <= used <= total; it fails instead of exceeding what is left *)
Theorem C08_liquidity_never_exceeded : forall l amount l',
  liq_ok l -> 0 <= amount -> take_liquidity l amount = Ok l' ->
  liq_ok l' /\ match l, l' with
               | Some (t, u), Some (t', u') => t' = t /\ u' == u + amount
               | None, None => True
               | _, _ => False
               end.
Proof. exact take_liquidity_ok. Qed.
Print Assumptions C08_liquidity_never_exceeded.

Theorem C08_market_needs_whole_amount_to_fit : forall c l o b bv qv h t u,
  impact_cfg_ok c -> bar_ok b -> o_kind o = KMarket -> l = Some (t, u) ->
  balance_updates c l o b = Ok (Some (bv, qv), h) -> pending o <= t - u.
Proof. exact market_fits. Qed.
Print Assumptions C08_market_needs_whole_amount_to_fit.

Theorem C08_limit_partial_fill_fits : forall l x t u, l = Some (t, u) -> min_avail x l <= t - u.
Proof. exact min_avail_le. Qed.
Print Assumptions C08_limit_partial_fill_fits.

(* truncation never increases a base amount: the truncated fill still fits *)
Theorem C08_truncation_shrinks : forall p q, 0 <= q -> 0 <= qtrunc p q /\ qtrunc p q <= q.
Proof. exact qtrunc_nonneg. Qed.
Print Assumptions C08_truncation_shrinks.
