(* C03 — No look-ahead; results independent of dispatcher concurrency.  Property theorems only.
   (a) No look-ahead rests on the batch structure of the dispatch loop, which the model makes explicit (after the fix
   7793261): all events dated <= dt are popped BEFORE any handler of the batch runs, and the events handlers push
   (the bar the exchange forwards to the per-pair source, order events) are only seen when the whole batch is done.
   So when a strategy handler runs at clock T, the exchange has already matched every bar dated <= T, and an order
   it places can only be matched by bars popped later, whose time is > T unless they were pushed later.
   On the exchange side (FillTimes.v): every fill carries the time of the bar that produced it, and an order accepted
   after some point of a history is only ever filled by bars processed after that point -- so if those are all dated
   later than T, every fill of the order is.
   (b) The dispatcher model has no max_concurrent, hash-seed or repetition input at all: its delivery sequence is a
   function of the sources, the behaviours and the job tie-break; and the exchange model is a function of the
   operation sequence.  That the real dispatcher matches this model for max_concurrent in {1,2,3,50} is what the
   correspondence check of C12 validates; hash seeds / repetitions are checked on sub-processes (C03_partial). *)
From Coq Require Import ZArith List.
From Basana Require Import Dispatch.Backtest Dispatch.BacktestProofs Dispatch.MuxProofs.
From Basana Require Exchange.Model Exchange.Prims Exchange.Structure Exchange.FillTimes.
Import ListNotations.
Open Scope Z_scope.

(* the batch of the events phase is taken from the sources as they are BEFORE the handlers run: it only
   depends on the state at the beginning of the phase, not on what the handlers of the batch do *)
Theorem C03_batch_independent_of_handlers : forall bj beh1 beh2 s oracle dt,
  d_pc s = PEvents dt ->
  trace_ext s (fst (step beh1 bj s oracle)) = trace_ext s (fst (step beh2 bj s oracle)).
Proof. exact batch_independent_of_handlers. Qed.
Print Assumptions C03_batch_independent_of_handlers.

(* ... every event of the batch is dated <= dt and carries the clock dt *)
Theorem C03_batch_clock : forall beh_ev beh_job s oracle dt s' o',
  d_pc s = PEvents dt ->
  step beh_ev beh_job s oracle = (s', o') ->
  d_last s' = Some dt /\ d_pc s' = PTop /\
  forall it, In it (trace_ext s s') -> exists i e, it = IEv i e dt.
Proof. exact events_step_clock. Qed.
Print Assumptions C03_batch_clock.

(* ... and the batch is complete: when the phase ends no prefetched or queued head event dated <= dt is left, so
   everything a later handler at clock dt could have been ahead of has been handled *)
Theorem C03_batch_complete : forall s dt s' batch,
  pop_while (S (pending_count s)) s dt = (s', batch) -> snd (mux_pop s' dt) = None.
Proof. exact pop_while_exhausts. Qed.
Print Assumptions C03_batch_complete.

(* the exchange model is a function of the operation sequence: same operations, same fills and balances *)
Theorem C03_exchange_deterministic : forall c s ops1 ops2,
  ops1 = ops2 -> Basana.Exchange.Model.run c s ops1 = Basana.Exchange.Model.run c s ops2.
Proof. intros c s ops1 ops2 E. rewrite E. reflexivity. Qed.
Print Assumptions C03_exchange_deterministic.

(* the exchange side of no look-ahead: in any history, an order accepted after the first part [ops1] is only filled by the
   bars of the second part [ops2]; if those are all dated later than T (which is what the dispatcher guarantees for the
   operations that follow a handler running at clock T), every one of its fills is dated later than T *)
Theorem C03_orders_are_filled_only_by_later_bars :
  forall c initial ops1 ops2 T i o,
  Structure.cfg_ok c -> Structure.ops_ok ops1 -> Structure.ops_ok ops2 ->
  (forall p w b, In (Model.OBar p w b) ops2 -> T < w) ->
  let s1 := Model.run c (Model.init_st initial) ops1 in
  nth_error (Model.s_orders (Model.run c s1 ops2)) i = Some o -> (length (Model.s_orders s1) <= i)%nat ->
  Forall (fun f => T < Model.f_when f) (Model.o_fills o).
Proof. exact FillTimes.fills_only_from_later_bars_reachable. Qed.
Print Assumptions C03_orders_are_filled_only_by_later_bars.
