(* C03 — No look-ahead; results independent of dispatcher concurrency.  Property theorems only.
   (a) No look-ahead rests on the batch structure of the dispatch loop, which the model makes explicit (after the fix
   7793261): all events dated <= dt are popped BEFORE any handler of the batch runs, and the events handlers push
   (the bar the exchange forwards to the per-pair source, order events) are only seen when the whole batch is done.
   So when a strategy handler runs at clock T, the exchange has already matched every bar dated <= T, and an order
   it places can only be matched by bars popped later, whose time is > T unless they were pushed later.
   (b) The dispatcher model has no max_concurrent, hash-seed or repetition input at all: its delivery sequence is a
   function of the sources, the behaviours and the job tie-break; and the exchange model is a function of the
   operation sequence.  That the real dispatcher matches this model for max_concurrent in {1,2,3,50} is what the
   correspondence check of C12 validates; hash seeds / repetitions are checked on sub-processes (C03_partial). *)
From Coq Require Import ZArith List.
From Basana Require Import Dispatch.Backtest Dispatch.BacktestProofs Dispatch.MuxProofs.
From Basana Require Exchange.Model.
Import ListNotations.
Open Scope Z_scope.

(* the batch of the events phase is taken from the sources as they are BEFORE the handlers run: it only
   depends on the state at the beginning of the phase, not on what the handlers of the batch do *)
Theorem C03_batch_independent_of_handlers : forall bj beh1 beh2 s oracle dt,
  d_pc s = PEvents dt ->
  trace_ext s (fst (step beh1 bj s oracle)) = trace_ext s (fst (step beh2 bj s oracle)).
Proof. exact batch_independent_of_handlers. Qed.
Print Assumptions C03_batch_independent_of_handlers.

(* ... every event of the batch is dated <= dt and carries the clock dt *)
Theorem C03_batch_clock : forall beh_ev beh_job s oracle dt s' o',
  d_pc s = PEvents dt ->
  step beh_ev beh_job s oracle = (s', o') ->
  d_last s' = Some dt /\ d_pc s' = PTop /\
  forall it, In it (trace_ext s s') -> exists i e, it = IEv i e dt.
Proof. exact events_step_clock. Qed.
Print Assumptions C03_batch_clock.

(* ... and the batch is complete: when the phase ends no prefetched or queued head event dated <= dt is left, so
   everything a later handler at clock dt could have been ahead of has been handled *)
Theorem C03_batch_complete : forall s dt s' batch,
  pop_while (S (pending_count s)) s dt = (s', batch) -> snd (mux_pop s' dt) = None.
Proof. exact pop_while_exhausts. Qed.
Print Assumptions C03_batch_complete.

(* the exchange model is a function of the operation sequence: same operations, same fills and balances *)
Theorem C03_exchange_deterministic : forall c s ops1 ops2,
  ops1 = ops2 -> Basana.Exchange.Model.run c s ops1 = Basana.Exchange.Model.run c s ops2.
Proof. intros c s ops1 ops2 E. rewrite E. reflexivity. Qed.
Print Assumptions C03_exchange_deterministic.
