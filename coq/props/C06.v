(* C06 — Funds on hold cover open orders and are released on close.  Property theorems only.
   Proved: holds never exceed balances in any reachable state; reserving / releasing never moves a total; a request
   without auto-borrow is accepted exactly when the hold update passes the rules, i.e. when available funds cover the
   reservation, and a rejected one changes nothing.  Proved over whole histories: on hold = sum of the reservations recorded for
   orders, per symbol, in every reachable state (LedgerProofs.v); closing an order removes its reservation.
   Proved over whole histories (HoldsOpen.v): in every reachable state every recorded reservation is that of an order that
   is open, so whenever no order is open nothing is reserved and nothing is on hold -- also after operations that aborted
   half-way with an internal error (the only step between "the record says closed" and "the reservation is deleted" is a
   release of holds, which cannot be refused in a reachable state). *)
From Coq Require Import ZArith QArith List.
From Basana Require Import Num.DecQ Exchange.Model Exchange.AcctProofs Exchange.StepProofs Exchange.OpProofs
     Exchange.HoldProofs Exchange.Prims Exchange.Structure Exchange.LedgerProofs Exchange.AtomicProofs Exchange.CancelProofs
     Exchange.HoldsOpen.
Import ListNotations.
Open Scope Q_scope.

Theorem C06_hold_never_exceeds_balance : forall c initial ops x,
  (forall kv, In kv initial -> 0 <= snd kv) ->
  let a := s_acct (run c (init_st initial) ops) in 0 <= vget (hold a) x /\ vget (hold a) x <= vget (bal a) x.
Proof. exact reachable_hold_le_balance. Qed.
Print Assumptions C06_hold_never_exceeds_balance.

(* a pure hold update is accepted exactly when every resulting hold is covered by its balance: with exactly the
   reservation available it passes, with less it is rejected *)
Theorem C06_hold_accepted_iff_covered : forall a req,
  rules_pass a -> (forall kv, In kv req -> 0 <= snd kv) ->
  ((exists a', acct_update (fun _ _ => None) a [] req [] = Ok a') <->
   (forall x, vget (hold a) x + vsum req x <= vget (bal a) x)).
Proof. exact hold_update_iff_covered_rules. Qed.
Print Assumptions C06_hold_accepted_iff_covered.

(* every account the exchange ever commits satisfies [rules_pass] *)
Theorem C06_committed_accounts_pass_rules : forall extra a db dh dbo a',
  acct_update extra a db dh dbo = Ok a' -> rules_pass a'.
Proof. exact rules_pass_of_update. Qed.
Print Assumptions C06_hold_accepted_iff_covered.

Theorem C06_rejected_request_reserves_nothing : forall c s k op p amount ar s' e,
  create_order c s k op p amount false ar = Fail s' e -> s' = s.
Proof. exact create_order_no_borrow_fail_unchanged. Qed.
Print Assumptions C06_rejected_request_reserves_nothing.

Theorem C06_reserving_keeps_totals : forall c s dh s' u y,
  upd_acct c s [] dh [] = Done s' u -> total (s_acct s') y == total (s_acct s) y.
Proof. exact hold_update_total. Qed.
Print Assumptions C06_reserving_keeps_totals.

(* closing an order releases exactly what it still had on hold *)
Theorem C06_close_releases_order_holds : forall c s o s' u x,
  is_open o = false ->
  update_balances c s o [] = Done s' u ->
  vget (hold (s_acct s')) x == vget (hold (s_acct s)) x - vsum (holds_get (s_holds s) (o_id o)) x /\
  s_holds s' = (if vnonempty (holds_get (s_holds s) (o_id o)) then holds_del (s_holds s) (o_id o) else s_holds s).
Proof. exact closed_order_releases_holds. Qed.
Print Assumptions C06_close_releases_order_holds.

(* in every reachable state the amount on hold is exactly the sum of the reservations recorded for orders *)
Theorem C06_hold_is_sum_of_reservations : forall c initial ops x,
  cfg_ok c -> ops_ok ops -> (forall kv, In kv initial -> 0 <= snd kv) ->
  let s := run c (init_st initial) ops in vget (hold (s_acct s)) x == hsum x s.
Proof. exact holds_reachable. Qed.
Print Assumptions C06_hold_is_sum_of_reservations.

Theorem C06_primitive_transactions_keep_hold_eq_reservations : forall c s s',
  WF s -> holds_inv s -> prim c s s' -> holds_inv s'.
Proof. exact holds_prim. Qed.
Print Assumptions C06_primitive_transactions_keep_hold_eq_reservations.

(* in every reachable state each recorded reservation has one non-negative entry per symbol (and, with
   C06_hold_is_sum_of_reservations, is covered by what the account has on hold) *)
Theorem C06_reservations_are_non_negative : forall c initial ops k m,
  cfg_ok c -> ops_ok ops -> NoDup (map fst initial) -> (forall kv, In kv initial -> 0 <= snd kv) ->
  In (k, m) (s_holds (run c (init_st initial) ops)) -> vnodup m /\ forall kv, In kv m -> 0 <= snd kv.
Proof. exact reachable_reservations_ok. Qed.
Print Assumptions C06_reservations_are_non_negative.

(* in every reachable state every recorded reservation is non-empty and belongs to an order that is open; no order has
   two -- whatever happened before, including bars whose processing aborted with an internal error *)
Theorem C06_reservations_belong_to_open_orders : forall c initial ops,
  cfg_ok c -> ops_ok ops -> NoDup (map fst initial) -> (forall kv, In kv initial -> 0 <= snd kv) ->
  let s := run c (init_st initial) ops in
  NoDup (map fst (s_holds s)) /\
  forall k m, In (k, m) (s_holds s) -> vnonempty m = true /\ still_open s k = true.
Proof.
  intros c initial ops Hc Ho Hn Hp. destruct (reservations_belong_to_open_orders_always c initial ops Hc Ho Hn Hp) as [A B].
  split; [exact A|]. intros k m Hin. destruct (B k m Hin) as [X [Y|Y]]; [discriminate Y | split; assumption].
Qed.
Print Assumptions C06_reservations_belong_to_open_orders.

(* ... hence: whenever no order is open, nothing is reserved and nothing is on hold in any symbol *)
Theorem C06_nothing_on_hold_when_no_order_is_open : forall c initial ops x,
  cfg_ok c -> ops_ok ops -> NoDup (map fst initial) -> (forall kv, In kv initial -> 0 <= snd kv) ->
  let s := run c (init_st initial) ops in
  (forall i o, nth_error (s_orders s) i = Some o -> is_open o = false) ->
  s_holds s = [] /\ vget (hold (s_acct s)) x == 0.
Proof. exact nothing_on_hold_when_no_order_is_open_always. Qed.
Print Assumptions C06_nothing_on_hold_when_no_order_is_open.

(* a release of holds is never refused in a state that satisfies the invariants of every reachable state *)
Theorem C06_release_is_never_refused : forall c s o,
  cancel_inv s -> is_open o = false -> exists s2, update_balances c s o [] = Done s2 tt.
Proof. exact release_succeeds. Qed.
Print Assumptions C06_release_is_never_refused.

(* the premises are met: two orders reserve funds, one is filled and the other cancelled; then nothing is on hold *)
Example C06_no_open_order_premises_met :
  let c := mkCfg [(1%positive, 2%nat); (2%positive, 2%nat)] [] None (PctFee (1#4) 0) (VolShare 25 0) NoLoans in
  let p := (1%positive, 2%positive) in
  let mid := [OBar p 60%Z (mkBar 100 100 100 100 100); OCreate (KLimit 100) Buy p 5 false false;
              OCreate (KLimit 90) Buy p 1 false false] in
  let ops := mid ++ [OBar p 120%Z (mkBar 100 100 100 100 100); OCancel 1%nat] in
  let initial := [(2%positive, 1000)] in
  cfg_ok c /\ ops_ok ops /\ NoDup (map fst initial) /\
  map (fun kv => fst kv) (s_holds (run c (init_st initial) mid)) = [0%nat; 1%nat] /\
  map is_open (s_orders (run c (init_st initial) ops)) = [false; false] /\
  s_holds (run c (init_st initial) ops) = [].
Proof.
  cbv zeta. split; [cbn; discriminate|]. split; [repeat constructor; cbn; discriminate|].
  split; [repeat constructor; intros []|].
  vm_compute. repeat split; reflexivity.
Qed.

Example C06_holds_nonvacuous :
  let c := mkCfg [(1%positive, 2%nat); (2%positive, 2%nat)] [] None NoFee (VolShare 25 0) NoLoans in
  let p := (1%positive, 2%positive) in
  let ops := [OBar p 60%Z (mkBar 100 100 100 100 10); OCreate (KLimit 100) Buy p 5 false false;
              OCreate (KLimit 90) Buy p 1 false false; OBar p 120%Z (mkBar 100 100 100 100 8)] in
  let s := run c (init_st [(2%positive, 1000)]) ops in
  cfg_ok c /\ ops_ok ops /\ Qeq_bool (hsum 2%positive s) 390 = true /\ Qeq_bool (vget (hold (s_acct s)) 2%positive) 390 = true.
Proof. cbv zeta. split; [cbn; discriminate|]. split; [repeat constructor; cbn; discriminate|]. vm_compute. split; reflexivity. Qed.
