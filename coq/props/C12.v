(* C12 — Backtesting dispatcher: global time order and exactly-once delivery.  Property theorems only.
   See Dispatch/BacktestProofs.v.  The model makes the batch structure explicit: a whole batch of events is popped
   before any of its handlers runs (fix 7793261) and the sources are only looked at again when all are done. *)
From Coq Require Import ZArith List.
From Basana Require Import Dispatch.Backtest Dispatch.BacktestProofs Dispatch.MuxProofs Dispatch.RunProofs Dispatch.OnceProofs.
Import ListNotations.
Open Scope Z_scope.

(* what the multiplexer pops is a prefetched event not later than max_dt, and the oldest such one; among equally old
   ones the source subscribed first wins *)
Theorem C12_pop_oldest_first : forall sl i max_dt best j e,
  scan sl i max_dt best = Some (j, e) ->
  (best = Some (j, e) \/ (exists k, nth_error sl k = Some (Some e) /\ j = (i + k)%nat /\ e_when e <= max_dt)) /\
  (forall k e', nth_error sl k = Some (Some e') -> e_when e' <= max_dt -> e_when e <= e_when e') /\
  (forall b, best = Some b -> e_when e <= e_when (snd b)).
Proof. exact scan_spec. Qed.
Print Assumptions C12_pop_oldest_first.

(* every event delivered by one events phase carries the clock of that phase, and the clock is set to it *)
Theorem C12_batch_clock : forall beh_ev beh_job s oracle dt s' o',
  d_pc s = PEvents dt ->
  step beh_ev beh_job s oracle = (s', o') ->
  d_last s' = Some dt /\ d_pc s' = PTop /\
  forall it, In it (trace_ext s s') -> exists i e, it = IEv i e dt.
Proof. exact events_step_clock. Qed.
Print Assumptions C12_batch_clock.

(* the events popped for the batch of dt are all dated <= dt *)
Theorem C12_batch_not_in_the_future : forall fuel s dt s' batch,
  pop_while fuel s dt = (s', batch) -> forall x, In x batch -> e_when (snd x) <= dt.
Proof. exact pop_while_le. Qed.
Print Assumptions C12_batch_not_in_the_future.

(* the clock never moves backwards in a scheduling step *)
Theorem C12_clock_monotone_sched : forall beh_ev beh_job s oracle dt drain s' o' l,
  d_pc s = PSched dt drain -> d_last s = Some l ->
  step beh_ev beh_job s oracle = (s', o') ->
  exists l', d_last s' = Some l' /\ l <= l'.
Proof. exact sched_step_clock_monotone. Qed.
Print Assumptions C12_clock_monotone_sched.

(* the loop refuses to go back in time: an events phase for dt is only entered with clock <= dt *)
Theorem C12_never_back_in_time : forall beh_ev beh_job s oracle s' o' dt drain l,
  d_pc s = PTop -> step beh_ev beh_job s oracle = (s', o') -> d_pc s' = PSched dt drain -> drain = false ->
  d_last s' = Some l -> l <= dt.
Proof. exact top_step_not_back. Qed.
Print Assumptions C12_never_back_in_time.

(* whole run, for every source content, job list, behaviour of handlers and jobs, tie-break oracle and number of steps:
   the clocks observed by successive executions (event deliveries and jobs) never decrease, and nothing runs with a
   clock earlier than its own time *)
Theorem C12_clock_never_decreases_over_the_whole_run : forall beh_ev beh_job srcs jobs oracle fuel,
  let s := fst (run beh_ev beh_job fuel (init_d srcs jobs) oracle) in
  sorted_le (map clk (d_trace s)) /\ forall it, In it (d_trace s) -> due it <= clk it.
Proof. exact run_clock_monotone. Qed.
Print Assumptions C12_clock_never_decreases_over_the_whole_run.

(* whole run: once run() has returned, every event that ever entered a source (initially, or pushed by a handler or a
   job) has been delivered exactly once; jobs are neither lost nor duplicated *)
Theorem C12_every_event_delivered_exactly_once : forall beh_ev beh_job srcs jobs oracle fuel,
  let s := fst (run beh_ev beh_job fuel (init_d srcs jobs) oracle) in
  (d_pc s = PDone ->
   forall p, cnt p (delivered (d_trace s)) =
             (cnt p (concat srcs) + cnt p (pushed beh_ev beh_job (length srcs) (d_trace s)))%nat) /\
  (forall q, (cnt q (d_sched s) + cnt q (executed (d_trace s)) =
              cnt q jobs + cnt q (scheduled beh_ev beh_job (d_trace s)))%nat).
Proof. exact run_delivers_exactly_once. Qed.
Print Assumptions C12_every_event_delivered_exactly_once.

Example C12_d12_witness :
  (* the witness of the repaired defect D12: job at 13 pushes an event dated 13; job at 16; next event at 20 *)
  let '(s, _) := run (fun _ => []) (fun j => if Nat.eqb j 1 then [EPush 1 (mkEv 13 100)] else []) 60
                     (init_d [[mkEv 10 1; mkEv 20 2]; []] [(13, 1%nat); (16, 2%nat)]) [1%nat; 2%nat] in
  d_pc s = PDone /\
  d_trace s = [IEv 0 (mkEv 10 1) 10; IJob 1 13 13; IEv 1 (mkEv 13 100) 13; IJob 2 16 16; IEv 0 (mkEv 20 2) 20].
Proof. vm_compute. split; reflexivity. Qed.
