(* C04 — Execution price and trigger guarantees per order type.  Property theorems only.
   [half_unit qp] is half a unit of the quote precision (the "up to rounding" of the statement).
   Proved per (order, bar): limit / stop-limit price and reach, stop and stop-limit triggers, market and stop
   range and reference price, for every liquidity state, every amount and every precision.
   Completeness, market and stop orders (Complete.v): processing such an order against a bar of its pair closes it, with
   its whole amount traded or nothing -- nothing only if no fill was proposed (liquidity, stop not reached), the fill
   rounds to nothing, or the account lacks the funds; with unlimited liquidity a market order, and a stop order whose
   stop the bar reaches, always get a fill proposed, hence are completely filled funds permitting.
   Limit orders likewise: a bar whose range reaches the limit fills the whole pending amount, funds permitting; the
   premise "something is pending" holds for every open order of every reachable state.
   Over whole histories (CompleteHist.v): after a bar of its pair that was processed without an internal error, every
   market / stop order that was open before it is closed with its whole amount traded, or with nothing traded for a reason
   named at the moment its turn came; with unlimited liquidity a market order is completely filled by the next bar of its
   pair unless the fill rounds to nothing or funds are lacking.
   Likewise a limit order is completely filled by a bar of its pair whose range reaches its limit, or left open and
   untouched if the fill rounds to nothing or funds are lacking when its turn comes.  Nothing of C04 is left unproved at model
   level; the monitor checks the completeness sentence end to end on the implementation. *)
From Coq Require Import ZArith QArith List.
From Basana Require Import Num.DecQ Num.DecQProofs Exchange.Model Exchange.OrderProofs
     Exchange.Structure Exchange.FeeHistory Exchange.LimitHistory Exchange.FillTimes Exchange.NoPartial Exchange.FirstBar
     Exchange.Complete Exchange.CompleteHist Exchange.Prims.
Import ListNotations.
Open Scope Q_scope.

(* limit orders, and stop-limit orders once triggered (both use limit_updates) *)
Theorem C04_limit_buy : forall c l o b lp bv qv pi b' q',
  impact_cfg_ok c -> bar_ok b -> o_op o = Buy -> 0 < bv ->
  limit_updates c l o b lp = Ok (Some (bv, qv)) ->
  round_bu pi (Some bv) (Some qv) = (Some b', Some q') ->
  0 < b' /\ - q' <= lp * b' + half_unit (snd pi) /\ b_low b <= lp /\
  b_low b * b' - half_unit (snd pi) <= - q'.
Proof. exact limit_buy_guarantee. Qed.
Print Assumptions C04_limit_buy.

Theorem C04_limit_sell : forall c l o b lp bv qv pi b' q',
  impact_cfg_ok c -> bar_ok b -> o_op o = Sell -> bv < 0 ->
  limit_updates c l o b lp = Ok (Some (bv, qv)) ->
  round_bu pi (Some bv) (Some qv) = (Some b', Some q') ->
  b' < 0 /\ lp * - b' - half_unit (snd pi) <= q' /\ lp <= b_high b /\
  q' <= b_high b * - b' + half_unit (snd pi).
Proof. exact limit_sell_guarantee. Qed.
Print Assumptions C04_limit_sell.

(* truncating the base amount of a partial fill keeps its price (the defect fixed by df9e3a3) *)
Theorem C04_rounding_keeps_price : forall pi bv qv price b' q',
  0 < bv -> qv == - (price * bv) ->
  round_bu pi (Some bv) (Some qv) = (Some b', Some q') ->
  0 < b' /\ b' <= bv /\ on_grid (fst pi) b' /\ on_grid (snd pi) q' /\
  - q' <= price * b' + half_unit (snd pi) /\ price * b' - half_unit (snd pi) <= - q'.
Proof. exact round_bu_keeps_price. Qed.
Print Assumptions C04_rounding_keeps_price.

Theorem C04_market : forall c l o b bv qv h,
  impact_cfg_ok c -> bar_ok b -> o_kind o = KMarket ->
  balance_updates c l o b = Ok (Some (bv, qv), h) ->
  gt_avail (pending o) l = false /\
  exists price, bv == pending o * sign_of (o_op o) /\ qv == price * pending o * - sign_of (o_op o) /\
    b_low b <= price /\ price <= b_high b /\
    (o_op o = Buy -> b_open b <= price) /\ (o_op o = Sell -> price <= b_open b).
Proof. exact market_updates. Qed.
Print Assumptions C04_market.

Theorem C04_stop : forall c l o b sp bv qv h,
  impact_cfg_ok c -> bar_ok b -> o_kind o = KStop sp -> 0 < sp ->
  balance_updates c l o b = Ok (Some (bv, qv), h) ->
  gt_avail (pending o) l = false /\
  exists price, bv == pending o * sign_of (o_op o) /\ qv == price * pending o * - sign_of (o_op o) /\
    b_low b <= price /\ price <= b_high b /\
    (o_op o = Buy -> sp <= price /\ sp <= b_high b) /\ (o_op o = Sell -> price <= sp /\ b_low b <= sp).
Proof. exact stop_updates. Qed.
Print Assumptions C04_stop.

Theorem C04_stop_not_before_trigger : forall c l o b sp,
  o_kind o = KStop sp -> bar_ok b ->
  (o_op o = Buy -> b_high b < sp) -> (o_op o = Sell -> sp < b_low b) ->
  exists h, balance_updates c l o b = Ok (None, h).
Proof. exact stop_not_before_trigger. Qed.
Print Assumptions C04_stop_not_before_trigger.

Theorem C04_stoplimit_not_before_trigger : forall c l o b sp lp,
  o_kind o = KStopLimit sp lp -> o_hit o = false -> bar_ok b ->
  (o_op o = Buy -> b_high b < sp) -> (o_op o = Sell -> sp < b_low b) ->
  balance_updates c l o b = Ok (None, false).
Proof. exact stoplimit_not_before_trigger. Qed.
Print Assumptions C04_stoplimit_not_before_trigger.

(* non-vacuity: the witness of the repaired defect D5 (base precision 0, liquidity 2.5, limit buy 5 @ 100, open 90) *)
Example C04_d5_witness :
  let c := mkCfg [] [] (Some (0%nat, 2%nat)) NoFee (VolShare 25 0) NoLoans in
  let o := mkOrder 0 (KLimit 100) Buy (1%positive, 2%positive) 5 SOpen 0 0 0 false false false [] [] in
  let b := mkBar 90 95 85 90 10 in
  match limit_updates c (Some (10 * (25 / 100), 0)) o b 100 with
  | Ok (Some (bv, qv)) => match round_bu (0%nat, 2%nat) (Some bv) (Some qv) with
                          | (Some b', Some q') => Qeq_bool b' 2 = true /\ Qeq_bool q' (-180) = true
                          | _ => False end
  | _ => False
  end.
Proof. vm_compute. split; reflexivity. Qed.

(* whole history: every fill ever recorded on a limit or stop-limit order, in every state reachable through any
   operation sequence (bars well formed with positive prices), was made at an effective price no worse than the limit,
   up to half a unit of the quote precision *)
Theorem C04_every_recorded_fill_respects_the_limit : forall c, impact_cfg_ok c ->
  forall initial ops i o lp bp qp,
  cfg_ok c -> ops_ok ops -> bars_ok ops ->
  nth_error (s_orders (run c (init_st initial) ops)) i = Some o ->
  limit_of (o_kind o) = Some lp -> get_pair_info c (o_pair o) = Ok (bp, qp) ->
  Forall (fun f => match o_op o with
                   | Buy => - f_quote f <= lp * f_base f + half_unit qp
                   | Sell => lp * - f_base f - half_unit qp <= f_quote f
                   end) (o_fills o).
Proof. exact fills_within_limit_reachable. Qed.
Print Assumptions C04_every_recorded_fill_respects_the_limit.

Example C04_history_premises_met :
  let c := mkCfg [(1%positive, 2%nat); (2%positive, 2%nat)] [] None NoFee (VolShare 25 10) NoLoans in
  let p := (1%positive, 2%positive) in
  let ops := [OBar p 60%Z (mkBar 100 100 100 100 10); OCreate (KLimit (10001#100)) Buy p 5 false false;
              OCreate (KStopLimit 99 (985#10)) Sell p 2 false false;
              OBar p 120%Z (mkBar 100 101 98 100 (37#3)); OBar p 180%Z (mkBar 100 101 99 100 100)] in
  let s := run c (init_st [(1%positive, 10); (2%positive, 1000)]) ops in
  impact_cfg_ok c /\ cfg_ok c /\ ops_ok ops /\ bars_ok ops /\
  map (fun o => length (o_fills o)) (s_orders s) = [2%nat; 1%nat].
Proof.
  cbv zeta. split; [unfold impact_cfg_ok; cbn; discriminate|]. split; [unfold cfg_ok; cbn; discriminate|].
  split; [repeat constructor; cbn; discriminate|].
  split.
  - intros p w b Hin. cbn [In] in Hin.
    repeat (destruct Hin as [Hin|Hin]; [try discriminate Hin; inversion Hin; subst; unfold bar_ok; cbn; repeat split; discriminate|]).
    contradiction.
  - vm_compute. reflexivity.
Qed.

(* completeness of market and stop orders: what processing one such order against a bar of its pair leads to *)
Theorem C04_market_or_stop_order_outcome : forall c s l o p when b s' l',
  get_order s (o_id o) = Some o -> is_open o = true -> aon (o_kind o) -> NP c o ->
  process_order c s l o p when b = Done s' l' ->
  exists o', get_order s' (o_id o) = Some o' /\ is_open o' = false /\
    (filled o' == o_amount o \/
     (filled o' == 0 /\ (nothing_proposed c l o b \/ rounds_to_nothing c l o b \/ refused_for_funds c s o))).
Proof. exact aon_order_outcome. Qed.
Print Assumptions C04_market_or_stop_order_outcome.

(* with unlimited liquidity a market order is completely filled by the bar that processes it, funds permitting *)
Theorem C04_market_order_filled_funds_permitting : forall c s o p when b s' l',
  get_order s (o_id o) = Some o -> is_open o = true -> o_kind o = KMarket -> NP c o ->
  process_order c s None o p when b = Done s' l' ->
  exists o', get_order s' (o_id o) = Some o' /\ is_open o' = false /\
    (filled o' == o_amount o \/ (filled o' == 0 /\ (rounds_to_nothing c None o b \/ refused_for_funds c s o))).
Proof. exact market_order_filled_funds_permitting. Qed.
Print Assumptions C04_market_order_filled_funds_permitting.

(* ... and so is a stop order when the bar's range reaches its stop price *)
Theorem C04_stop_order_filled_when_reached_funds_permitting : forall c s o p when b sp s' l',
  get_order s (o_id o) = Some o -> is_open o = true -> o_kind o = KStop sp -> 0 < sp -> NP c o -> bar_ok b ->
  reaches_stop o b sp ->
  process_order c s None o p when b = Done s' l' ->
  exists o', get_order s' (o_id o) = Some o' /\ is_open o' = false /\
    (filled o' == o_amount o \/ (filled o' == 0 /\ (rounds_to_nothing c None o b \/ refused_for_funds c s o))).
Proof. exact stop_order_filled_when_reached_funds_permitting. Qed.
Print Assumptions C04_stop_order_filled_when_reached_funds_permitting.

(* ... and a limit order is completely filled by a bar whose range reaches its limit, funds permitting; otherwise it
   stays open, untouched *)
Theorem C04_limit_order_filled_when_reached_funds_permitting : forall c s o p when b lp bp qp s' l',
  get_order s (o_id o) = Some o -> is_open o = true -> o_kind o = KLimit lp -> 0 < lp -> bar_ok b ->
  get_pair_info c (o_pair o) = Ok (bp, qp) -> on_grid bp (o_amount o) -> on_grid bp (o_fb o) -> OW o -> 0 < pending o ->
  reaches_limit o b lp ->
  process_order c s None o p when b = Done s' l' ->
  exists o', get_order s' (o_id o) = Some o' /\
    ((is_open o' = false /\ filled o' == o_amount o) \/
     (is_open o' = true /\ o_fb o' = o_fb o /\ (rounds_to_nothing c None o b \/ refused_for_funds c s o))).
Proof. exact limit_order_filled_when_reached_funds_permitting. Qed.
Print Assumptions C04_limit_order_filled_when_reached_funds_permitting.

(* its premise "something is pending" holds for every open order of every reachable state *)
Theorem C04_open_orders_have_something_pending : forall c initial ops i o,
  cfg_ok c -> ops_ok ops ->
  nth_error (s_orders (run c (init_st initial) ops)) i = Some o -> is_open o = true -> 0 < pending o.
Proof. exact open_orders_have_something_pending. Qed.
Print Assumptions C04_open_orders_have_something_pending.

(* the premises of the limit theorem are met in a reachable state: a limit buy of 5 at 100, still open after a bar that
   did not reach its limit, is completed by a bar that does *)
Example C04_limit_completeness_premises_met :
  let c := mkCfg [(1%positive, 2%nat); (2%positive, 2%nat)] [] None NoFee InfLiq NoLoans in
  let p := (1%positive, 2%positive) in
  let ops := [OBar p 60%Z (mkBar 150 150 150 150 10); OCreate (KLimit 100) Buy p 5 false false;
              OBar p 120%Z (mkBar 140 141 120 130 10)] in
  let b := mkBar 120 121 99 100 10 in
  let s := run c (init_st [(2%positive, 1000)]) ops in
  exists o, get_order s 0%nat = Some o /\ o_id o = 0%nat /\ is_open o = true /\ o_kind o = KLimit 100 /\ bar_ok b /\
    get_pair_info c (o_pair o) = Ok (2%nat, 2%nat) /\ on_grid 2 (o_amount o) /\ on_grid 2 (o_fb o) /\ OW o /\
    0 < pending o /\ reaches_limit o b 100 /\
    exists s' l', process_order c s None o p 180%Z b = Done s' l' /\
      option_map (fun o' => (is_open o', Qred (filled o'))) (get_order s' 0%nat) = Some (false, 5).
Proof.
  cbv zeta. eexists. split; [vm_compute; reflexivity|]. split; [reflexivity|]. split; [reflexivity|]. split; [reflexivity|].
  split; [unfold bar_ok; cbn; repeat split; discriminate|]. split; [reflexivity|].
  split; [exists 500%Z; vm_compute; reflexivity|]. split; [exists 0%Z; vm_compute; reflexivity|].
  split; [unfold OW; cbn; split; discriminate|]. split; [vm_compute; reflexivity|]. split; [cbn; discriminate|].
  eexists. eexists. split; vm_compute; reflexivity.
Qed.

(* the premises are met in a reachable state (the order invariant NP holds there by NoPartial.run_NI), and both exits
   happen: with 1000 USD the market buy of 5 at 100 is filled completely; with 400 USD it is closed unfilled *)
Example C04_completeness_premises_met :
  let c := mkCfg [(1%positive, 2%nat); (2%positive, 2%nat)] [] None NoFee InfLiq NoLoans in
  let p := (1%positive, 2%positive) in
  let ops := [OBar p 60%Z (mkBar 50 50 50 50 10); OCreate KMarket Buy p 5 false false] in
  let b := mkBar 100 101 99 100 10 in
  forall funds, funds = 1000 \/ funds = 400 ->
  let s := run c (init_st [(2%positive, funds)]) ops in
  exists o, get_order s 0%nat = Some o /\ o_id o = 0%nat /\ is_open o = true /\ o_kind o = KMarket /\ NP c o /\
    exists s' l', process_order c s None o p 120%Z b = Done s' l' /\
      option_map (fun o' => Qred (filled o')) (get_order s' 0%nat) = Some (if Qeq_bool funds 1000 then 5 else 0).
Proof.
  intros c p ops b funds Hf s. subst s.
  assert (Hc : cfg_ok c) by exact I.
  assert (Ho : ops_ok ops) by (repeat constructor; cbn; discriminate).
  assert (Hn : forall f, NI c (run c (init_st [(2%positive, f)]) ops)).
  { intros f. apply run_NI; [exact Hc | exact Ho | apply WF_init | intros j x Hj; destruct j; discriminate Hj]. }
  destruct Hf as [-> | ->].
  - eexists. split; [vm_compute; reflexivity|]. split; [reflexivity|]. split; [reflexivity|]. split; [reflexivity|]. split.
    + apply (Hn 1000 0%nat). vm_compute. reflexivity.
    + eexists. eexists. split; vm_compute; reflexivity.
  - eexists. split; [vm_compute; reflexivity|]. split; [reflexivity|]. split; [reflexivity|]. split; [reflexivity|]. split.
    + apply (Hn 400 0%nat). vm_compute. reflexivity.
    + eexists. eexists. split; vm_compute; reflexivity.
Qed.

(* whole history: after a bar of its pair, processed without an internal error, every market / stop order that was open
   before it is closed, having traded its whole amount -- or nothing, for a reason named at the moment its turn came (the
   liquidity then left, the state then reached) *)
Theorem C04_market_and_stop_orders_filled_by_the_next_bar : forall c initial ops p when b s',
  cfg_ok c -> ops_ok (ops ++ [OBar p when b]) ->
  let s := run c (init_st initial) ops in
  step c s (OBar p when b) = (s', ROk) ->
  forall j o0, get_order s j = Some o0 -> is_open o0 = true -> aon (o_kind o0) -> pair_eqb (o_pair o0) p = true ->
  exists o', get_order s' j = Some o' /\ is_open o' = false /\
    (filled o' == o_amount o0 \/
     (filled o' == 0 /\ why_unfilled c o0 b (match c_liq c with InfLiq => true | _ => false end))).
Proof. exact market_and_stop_orders_filled_by_the_next_bar. Qed.
Print Assumptions C04_market_and_stop_orders_filled_by_the_next_bar.

(* "with unlimited liquidity and ample funds a market order is completely filled by the next bar of its pair" *)
Theorem C04_market_orders_filled_by_the_next_bar_funds_permitting : forall c initial ops p when b s',
  c_liq c = InfLiq -> ops_ok (ops ++ [OBar p when b]) ->
  let s := run c (init_st initial) ops in
  step c s (OBar p when b) = (s', ROk) ->
  forall j o0, get_order s j = Some o0 -> is_open o0 = true -> o_kind o0 = KMarket -> pair_eqb (o_pair o0) p = true ->
  exists o', get_order s' j = Some o' /\ is_open o' = false /\
    (filled o' == o_amount o0 \/
     (filled o' == 0 /\ ((exists l, rounds_to_nothing c l o0 b) \/ (exists s_mid, refused_for_funds c s_mid o0)))).
Proof. exact market_orders_filled_by_the_next_bar_funds_permitting. Qed.
Print Assumptions C04_market_orders_filled_by_the_next_bar_funds_permitting.

Example C04_history_completeness_premises_met :
  let c := mkCfg [(1%positive, 2%nat); (2%positive, 2%nat)] [] None NoFee InfLiq NoLoans in
  let p := (1%positive, 2%positive) in
  let ops := [OBar p 60%Z (mkBar 50 50 50 50 10); OCreate KMarket Buy p 5 false false; OCreate KMarket Buy p 9 false false] in
  let bar := OBar p 120%Z (mkBar 100 101 99 100 10) in
  let s := run c (init_st [(2%positive, 1000)]) ops in
  c_liq c = InfLiq /\ ops_ok (ops ++ [bar]) /\ snd (step c s bar) = ROk /\
  map (fun o => (is_open o, o_kind o)) (s_orders s) = [(true, KMarket); (true, KMarket)] /\
  map (fun o => (is_open o, Qred (filled o))) (s_orders (fst (step c s bar))) = [(false, 5); (false, 0)].
Proof.
  cbv zeta. split; [reflexivity|]. split; [repeat constructor; cbn; discriminate|]. vm_compute. repeat split; reflexivity.
Qed.

(* "... a limit order by the first bar whose range reaches its limit": with unlimited liquidity, every bar of its pair
   whose range reaches the limit fills an open limit order completely -- or, if the fill rounds to nothing or funds are
   lacking when its turn comes, leaves it open and untouched (so the first reaching bar fills it, funds permitting) *)
Theorem C04_limit_orders_filled_by_a_reaching_bar : forall c initial ops p when b s',
  c_liq c = InfLiq -> ops_ok (ops ++ [OBar p when b]) -> bar_ok b ->
  let s := run c (init_st initial) ops in
  step c s (OBar p when b) = (s', ROk) ->
  forall j o0 lp, get_order s j = Some o0 -> is_open o0 = true -> o_kind o0 = KLimit lp ->
  pair_eqb (o_pair o0) p = true -> reaches_limit o0 b lp ->
  exists o', get_order s' j = Some o' /\
    ((is_open o' = false /\ filled o' == o_amount o0) \/
     (is_open o' = true /\ o_fb o' = o_fb o0 /\
      ((exists l, rounds_to_nothing c l o0 b) \/ (exists s_mid, refused_for_funds c s_mid o0)))).
Proof. exact limit_orders_filled_by_a_reaching_bar. Qed.
Print Assumptions C04_limit_orders_filled_by_a_reaching_bar.

Example C04_limit_history_premises_met :
  let c := mkCfg [(1%positive, 2%nat); (2%positive, 2%nat)] [] None NoFee InfLiq NoLoans in
  let p := (1%positive, 2%positive) in
  let ops := [OBar p 60%Z (mkBar 150 150 150 150 10); OCreate (KLimit 100) Buy p 5 false false;
              OBar p 120%Z (mkBar 140 141 120 130 10)] in
  let b := mkBar 120 121 99 100 10 in
  let s := run c (init_st [(2%positive, 1000)]) ops in
  c_liq c = InfLiq /\ ops_ok (ops ++ [OBar p 180%Z b]) /\ bar_ok b /\ snd (step c s (OBar p 180%Z b)) = ROk /\
  map (fun o => (is_open o, o_kind o, Qred (filled o))) (s_orders s) = [(true, KLimit 100, 0)] /\
  map (fun o => (is_open o, Qred (filled o))) (s_orders (fst (step c s (OBar p 180%Z b)))) = [(false, 5)].
Proof.
  cbv zeta. split; [reflexivity|]. split; [repeat constructor; cbn; discriminate|].
  split; [unfold bar_ok; cbn; repeat split; discriminate|]. vm_compute. repeat split; reflexivity.
Qed.
