(* C16 — Signed requests verify against the bytes actually sent.  Property theorems only.
   After 45cf4d3 the Binance client puts on the wire the very string it signed (urlencode of the parameters, plus the
   signature appended last); Bitstamp signs urlencode(data) and aiohttp sends urlencode(data).  What is proved is about
   that encoding: the server's decoding recovers exactly the signed values whatever bytes they contain, the encoded
   text only contains characters no URL library re-escapes (never '&' or '='), and the transmitted query without the
   trailing signature IS the signed string.  HMAC-SHA256 itself, uuid4 nonces and clock currency are runtime
   (C16_partial): every signed endpoint of both clients (inventory read off the source, fail closed) is exercised
   against a loopback server that verifies the signature over the raw bytes it received. *)
From Coq Require Import NArith List Bool.
From Basana Require Import Wire.UrlEnc Wire.UrlEncProofs.
Import ListNotations.
Open Scope N_scope.

Theorem C16_decoding_recovers_signed_values : forall s,
  forallb is_byte s = true -> forall fuel, (3 * length s <= fuel)%nat -> unquote_plus fuel (quote_plus s) = Some s.
Proof. exact unquote_quote. Qed.
Print Assumptions C16_decoding_recovers_signed_values.

Theorem C16_encoded_text_is_wire_safe : forall s,
  forallb is_byte s = true -> forallb wire_safe (quote_plus s) = true.
Proof. exact quote_plus_wire_safe. Qed.
Print Assumptions C16_encoded_text_is_wire_safe.

Theorem C16_wire_query_is_signed_string_plus_signature : forall ps k v,
  ps <> [] -> urlencode (ps ++ [(k, v)]) = urlencode ps ++ [38] ++ quote_plus k ++ [61] ++ quote_plus v.
Proof. exact wire_query_prefix. Qed.
Print Assumptions C16_wire_query_is_signed_string_plus_signature.

(* the witness of the repaired defect D8: "a:b/c d" is signed AND sent as a%3Ab%2Fc+d *)
Example C16_d8_witness :
  quote_plus [97; 58; 98; 47; 99; 32; 100] = [97; 37; 51; 65; 98; 37; 50; 70; 99; 43; 100].
Proof. vm_compute. reflexivity. Qed.
