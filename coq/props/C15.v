(* C15 — Realtime dispatcher never runs anything early and keeps per-source order.  Property theorems only.
   Dispatch/Realtime.v models one iteration of the dispatch loop at clock [now] (jobs, then events; the same
   multiplexer as the backtesting dispatcher).
   C15_partial: "eventually dispatched once due" is proved per iteration (after an iteration nothing due is left);
   that iterations keep happening, and that idle handlers only run when the pool is idle, is asyncio-level behaviour
   checked by the monitor under a virtual clock. *)
From Coq Require Import ZArith List.
From Basana Require Import Dispatch.Backtest Dispatch.BacktestProofs Dispatch.MuxProofs Dispatch.Realtime
     Dispatch.RealtimeProofs.
Import ListNotations.
Open Scope Z_scope.

Theorem C15_never_early : forall s now oracle s' items o',
  rt_iter s now oracle = Some (s', items, o') ->
  forall it, In it items ->
  match it with RJob _ w => w <= now | REv _ e => e_when e <= now | RDrop _ e => e_when e <= now end.
Proof. exact rt_iter_never_early. Qed.
Print Assumptions C15_never_early.

Theorem C15_everything_due_is_taken : forall s now oracle s' items o',
  rt_iter s now oracle = Some (s', items, o') ->
  (forall w j, In (w, j) (r_sched s') -> now < w) /\ snd (mux_pop (r_mux s') now) = None.
Proof. exact rt_iter_takes_all_due. Qed.
Print Assumptions C15_everything_due_is_taken.

(* per source, the delivered events are in non-decreasing time order, continuing from the last time delivered *)
Theorem C15_per_source_order : forall batch prev prev' items i,
  (forall x, In x batch -> (fst x < length prev)%nat) ->
  filter_events prev batch = (prev', items) ->
  sorted_from (nth i prev None) (delivered_of i items).
Proof. exact filter_events_sorted. Qed.
Print Assumptions C15_per_source_order.

(* an event is dropped (and reported) exactly when it is older than the last event delivered from its source;
   dropping it does not move that mark *)
Theorem C15_older_event_dropped : forall prev i e prev' it,
  filter_event prev (i, e) = (prev', it) ->
  (it = REv i e /\ (forall p, nth i prev None = Some p -> p <= e_when e) /\ prev' = set_nth prev i (Some (e_when e))) \/
  (it = RDrop i e /\ (exists p, nth i prev None = Some p /\ e_when e < p) /\ prev' = prev).
Proof. exact filter_event_spec. Qed.
Print Assumptions C15_older_event_dropped.

Example C15_nonvacuous :
  (* delivered at 100, then an older event (50) is dropped, then 70 is dropped too (older than 100) *)
  filter_events [None] [(0%nat, mkEv 100 1); (0%nat, mkEv 50 2); (0%nat, mkEv 70 3); (0%nat, mkEv 100 4)] =
  ([Some 100], [REv 0 (mkEv 100 1); RDrop 0 (mkEv 50 2); RDrop 0 (mkEv 70 3); REv 0 (mkEv 100 4)]).
Proof. vm_compute. reflexivity. Qed.
