(* C07 — Rejected requests leave the account untouched.  Property theorems only.
   Proved: every rejection that happens before anything is mutated (loans, repayments, cancellations of unknown or
   closed orders, order requests without auto-borrow: validation, configuration, hold) leaves the complete model
   state identical.  NOT proved here (C07_partial): rejections of auto-borrow order requests, where loans were
   already created and are rolled back (the state is restored up to closed loans left in the loan list), and
   cancellations of open orders (which never fail on reachable states); both are covered by the correspondence check
   and the monitor only. *)
From Coq Require Import ZArith QArith List.
From Basana Require Import Num.DecQ Exchange.Model Exchange.AcctProofs Exchange.StepProofs Exchange.OpProofs.
Import ListNotations.
Open Scope Q_scope.

Theorem C07_create_loan_atomic : forall c s x a s' e, create_loan c s x a = Fail s' e -> s' = s.
Proof. exact create_loan_fail_unchanged. Qed.
Print Assumptions C07_create_loan_atomic.

Theorem C07_repay_loan_atomic : forall c s id s' e, repay_loan c s id = Fail s' e -> s' = s.
Proof. exact repay_loan_fail_unchanged. Qed.
Print Assumptions C07_repay_loan_atomic.

Theorem C07_cancel_loan_atomic : forall c s id s' e, cancel_loan c s id = Fail s' e -> s' = s.
Proof. exact cancel_loan_fail_unchanged. Qed.
Print Assumptions C07_cancel_loan_atomic.

Theorem C07_cancel_not_open : forall c s id,
  (get_order s id = None \/ exists o, get_order s id = Some o /\ is_open o = false) ->
  cancel_order c s id = Fail s EError.
Proof. exact cancel_not_open_fails. Qed.
Print Assumptions C07_cancel_not_open.

Theorem C07_order_request_atomic_without_borrowing : forall c s k op p amount ar s' e,
  create_order c s k op p amount false ar = Fail s' e -> s' = s.
Proof. exact create_order_no_borrow_fail_unchanged. Qed.
Print Assumptions C07_order_request_atomic_without_borrowing.

Theorem C07_atomic_partial : forall c s o e s',
  step c s o = (s', RErr e) ->
  match o with
  | OLoan _ _ | ORepay _ => s' = s
  | OCreate _ _ _ _ false _ => s' = s
  | OCancel id => (get_order s id = None \/ exists o, get_order s id = Some o /\ is_open o = false) -> s' = s
  | _ => True
  end.
Proof. exact step_rejected_unchanged. Qed.
Print Assumptions C07_atomic_partial.

(* non-vacuity: a request that is really rejected *)
Example C07_nonvacuous :
  let c := mkCfg [(1%positive, 2%nat); (2%positive, 2%nat)] [] None NoFee InfLiq NoLoans in
  let s := run c (init_st [(2%positive, 10)]) [OBar (1%positive, 2%positive) 60%Z (mkBar 100 100 100 100 10)] in
  snd (step c s (OCreate (KLimit 100) Buy (1%positive, 2%positive) 2 false false)) = RErr ENotEnough.
Proof. vm_compute. reflexivity. Qed.
