(* C07 — Rejected requests leave the account untouched.  Property theorems only.
   Proved: every rejection that happens before anything is mutated (loans, repayments, cancellations of unknown or
   closed orders, order requests without auto-borrow: validation, configuration, hold) leaves the complete model
   state identical.  Rejections of auto-borrow order requests, where loans were already created and are rolled
   back: in every reachable state balances, holds, borrowed amounts, orders, reservations and the set of open loans
   are restored exactly (the cancelled loans stay in the list, closed); the roll-back cannot itself fail, and once the
   borrowing succeeded the reservation cannot fail either (AtomicProofs.v).  Cancellations: in every reachable state a cancellation request that raises has changed nothing at all
   (it failed for an unknown or closed order, or in the up-front pricing of the open loans -- repair D16); past that
   point releasing the holds passes every rule and the repayment loop can only skip loans for lack of funds, so the
   cancellation goes through (CancelProofs.v, AutoRepayProofs.v).  Nothing of the property is left unproved at the level
   of the model; the tie to the code is the correspondence check and the before/after snapshot monitor. *)
From Coq Require Import ZArith QArith List.
From Basana Require Import Num.DecQ Exchange.Model Exchange.AcctProofs Exchange.StepProofs Exchange.OpProofs
     Exchange.HoldProofs Exchange.Prims Exchange.Structure Exchange.AtomicProofs Exchange.CancelProofs Exchange.AutoRepayProofs.
Import ListNotations.
Open Scope Q_scope.

Theorem C07_create_loan_atomic : forall c s x a s' e, create_loan c s x a = Fail s' e -> s' = s.
Proof. exact create_loan_fail_unchanged. Qed.
Print Assumptions C07_create_loan_atomic.

Theorem C07_repay_loan_atomic : forall c s id s' e, repay_loan c s id = Fail s' e -> s' = s.
Proof. exact repay_loan_fail_unchanged. Qed.
Print Assumptions C07_repay_loan_atomic.

Theorem C07_cancel_loan_atomic : forall c s id s' e, cancel_loan c s id = Fail s' e -> s' = s.
Proof. exact cancel_loan_fail_unchanged. Qed.
Print Assumptions C07_cancel_loan_atomic.

Theorem C07_cancel_not_open : forall c s id,
  (get_order s id = None \/ exists o, get_order s id = Some o /\ is_open o = false) ->
  cancel_order c s id = Fail s EError.
Proof. exact cancel_not_open_fails. Qed.
Print Assumptions C07_cancel_not_open.

Theorem C07_order_request_atomic_without_borrowing : forall c s k op p amount ar s' e,
  create_order c s k op p amount false ar = Fail s' e -> s' = s.
Proof. exact create_order_no_borrow_fail_unchanged. Qed.
Print Assumptions C07_order_request_atomic_without_borrowing.

Theorem C07_atomic_partial : forall c s o e s',
  step c s o = (s', RErr e) ->
  match o with
  | OLoan _ _ | ORepay _ => s' = s
  | OCreate _ _ _ _ false _ => s' = s
  | OCancel id => (get_order s id = None \/ exists o, get_order s id = Some o /\ is_open o = false) -> s' = s
  | _ => True
  end.
Proof. exact step_rejected_unchanged. Qed.
Print Assumptions C07_atomic_partial.

(* non-vacuity: a request that is really rejected *)
(* an order request with auto-borrow that is rejected -- validation, lending conditions, margin requirement, missing
   price, whatever -- leaves no loan behind and changes nothing a user can observe, in every reachable state *)
Theorem C07_rejected_autoborrow_order_leaves_nothing : forall c initial ops k op p amount ar s' e,
  NoDup (map fst initial) -> (forall kv, In kv initial -> 0 <= snd kv) -> fst p <> snd p ->
  let s := run c (init_st initial) ops in
  create_order c s k op p amount true ar = Fail s' e -> obs_same s s'.
Proof. exact rejected_autoborrow_reachable. Qed.
Print Assumptions C07_rejected_autoborrow_order_leaves_nothing.

(* the roll-back itself: cancelling a loan that was just granted always succeeds and restores the account *)
Theorem C07_cancel_after_create_restores : forall c s x a s1 id,
  create_loan c s x a = Done s1 id -> rules_pass (s_acct s) -> vnodup (bor (s_acct s)) ->
  exists s2 u, cancel_loan c s1 id = Done s2 u /\ obs_same s s2 /\ rules_pass (s_acct s2) /\ vnodup (bor (s_acct s2)).
Proof. exact create_then_cancel. Qed.
Print Assumptions C07_cancel_after_create_restores.

(* once the borrowing succeeded the reservation is covered exactly: it cannot be refused *)
Theorem C07_reservation_after_borrowing_succeeds : forall c s req lids sb p,
  borrow_loop c s (shorts_of (s_acct s) req) [] = Done sb lids ->
  rules_pass (s_acct s) -> vnodup (bor (s_acct s)) -> req_form p req -> fst p <> snd p ->
  exists s', upd_acct c sb [] req [] = Done s' tt.
Proof. exact hold_after_borrow. Qed.
Print Assumptions C07_reservation_after_borrowing_succeeds.

(* in every reachable state the cancellation of an open order that does not auto-repay (or has not traded) succeeds:
   a cancellation request only fails for unknown or closed orders, and then nothing changes (C07_cancel_not_open) *)
Theorem C07_cancelling_an_open_order_cannot_fail : forall c initial ops id o,
  cfg_ok c -> ops_ok ops -> NoDup (map fst initial) -> (forall kv, In kv initial -> 0 <= snd kv) ->
  let s := run c (init_st initial) ops in
  get_order s id = Some o -> is_open o = true -> o_ar o && negb (Qzero (filled o)) = false ->
  exists s', cancel_order c s id = Done s' tt.
Proof. exact cancel_reachable. Qed.
Print Assumptions C07_cancelling_an_open_order_cannot_fail.

(* in every reachable state a cancellation request that raises -- whatever the reason -- has changed nothing *)
Theorem C07_failed_cancellation_changes_nothing : forall c initial ops id s' e,
  cfg_ok c -> ops_ok ops -> NoDup (map fst initial) -> (forall kv, In kv initial -> 0 <= snd kv) ->
  let s := run c (init_st initial) ops in
  cancel_order c s id = Fail s' e -> s' = s.
Proof. exact cancel_fail_unchanged_reachable. Qed.
Print Assumptions C07_failed_cancellation_changes_nothing.

Example C07_nonvacuous :
  let c := mkCfg [(1%positive, 2%nat); (2%positive, 2%nat)] [] None NoFee InfLiq NoLoans in
  let s := run c (init_st [(2%positive, 10)]) [OBar (1%positive, 2%positive) 60%Z (mkBar 100 100 100 100 10)] in
  snd (step c s (OCreate (KLimit 100) Buy (1%positive, 2%positive) 2 false false)) = RErr ENotEnough.
Proof. vm_compute. reflexivity. Qed.

(* non-vacuity: a rejected auto-borrow sell that had already borrowed the base symbol when the second loan (for the
   minimum fee, in a symbol without lending conditions... here: margin) was refused *)
Example C07_autoborrow_nonvacuous :
  let k := mkCond 2%positive 10 0%Z 0 (9 # 10) in
  let c := mkCfg [(1%positive, 2%nat); (2%positive, 2%nat)] [] None NoFee InfLiq (Margin 2%positive (Some k) []) in
  let p := (1%positive, 2%positive) in
  let s := run c (init_st [(2%positive, 100)]) [OBar p 60%Z (mkBar 100 100 100 100 10)] in
  match create_order c s KMarket Buy p 50 true false with
  | Fail s' e => filter l_open (s_loans s') = [] /\ Qeq_bool (vget (bor (s_acct s')) 2%positive) 0 = true
  | Done _ _ => False
  end.
Proof. vm_compute. split; reflexivity. Qed.
