(* C02 — Solvency: no negative balances.  Property theorems only.
   Proved for every operation sequence: 0 <= hold <= balance, 0 <= borrowed (hence available >= 0), refused updates
   keep the state, and borrowed = summed principal of the open loans (LedgerProofs.v, over the primitive
   transactions of Structure.v). *)
From Coq Require Import ZArith QArith List.
From Basana Require Import Num.DecQ Exchange.Model Exchange.AcctProofs Exchange.StepProofs Exchange.OpProofs
     Exchange.Prims Exchange.Structure Exchange.LedgerProofs
     Exchange.Reconfig Exchange.ReconfigProofs.
Import ListNotations.
Open Scope Q_scope.

(* AccountBalances.update never commits an account that violates
   0 <= hold <= balance and 0 <= borrowed -- whatever account it started from and whatever it was asked. *)
Theorem C02_update_enforces_rules : forall extra a db dh dbo a',
  acct_update extra a db dh dbo = Ok a' -> acct_good a'.
Proof. exact acct_update_good. Qed.
Print Assumptions C02_update_enforces_rules.

(* Every operation of the exchange (bar processing with any number of orders, order requests with or
   without auto-borrow, cancellations, loans, repayments, listings) preserves it, whether the
   operation succeeds or raises. *)
Theorem C02_step_preserves : forall c s o, acct_good (s_acct s) -> acct_good (s_acct (fst (step c s o))).
Proof. exact step_good. Qed.
Print Assumptions C02_step_preserves.

(* Hence in every reachable state, for every configuration, every history of operations of any length
   and every symbol: available = balance - hold >= 0, hold >= 0, borrowed >= 0, balance >= 0. *)
Theorem C02_reachable_solvent : forall c initial ops,
  (forall kv, In kv initial -> 0 <= snd kv) ->
  forall x, let a := s_acct (run c (init_st initial) ops) in
    0 <= vget (hold a) x /\ vget (hold a) x <= vget (bal a) x /\ 0 <= vget (bor a) x /\ 0 <= vget (bal a) x.
Proof. intros c initial ops H x. exact (reachable_good c initial ops H x). Qed.
Print Assumptions C02_reachable_solvent.

(* a fill or repayment that the account cannot afford is refused: the update returns an error and the
   caller keeps the old account (upd_acct returns the unchanged state) *)
Theorem C02_refused_update_keeps_state : forall c s db dh dbo s1 e,
  upd_acct c s db dh dbo = Fail s1 e -> s1 = s.
Proof. exact Basana.Exchange.OpProofs.upd_acct_fail. Qed.
Print Assumptions C02_refused_update_keeps_state.

(* borrowed always equals the summed principal of the open loans, per symbol, whatever was created, repaid (also by
   auto-repay), cancelled (auto-borrow roll-back) or rejected on the way *)
Theorem C02_borrowed_is_open_principal : forall c initial ops x,
  cfg_ok c -> ops_ok ops -> (forall kv, In kv initial -> 0 <= snd kv) ->
  let s := run c (init_st initial) ops in vget (bor (s_acct s)) x == lsum x s.
Proof. exact loans_reachable. Qed.
Print Assumptions C02_borrowed_is_open_principal.

Theorem C02_primitive_transactions_keep_borrowed_eq_loans : forall c s s',
  WF s -> loans_inv s -> prim c s s' -> loans_inv s'.
Proof. exact loans_prim. Qed.
Print Assumptions C02_primitive_transactions_keep_borrowed_eq_loans.

Example C02_nonvacuous :
  let c := mkCfg [(1%positive, 2%nat); (2%positive, 2%nat)] [] None NoFee InfLiq NoLoans in
  let s := run c (init_st [(2%positive, 1000)])
               [OBar (1%positive, 2%positive) 60%Z (mkBar 100 100 100 100 10);
                OCreate KMarket Buy (1%positive, 2%positive) 2 false false;
                OBar (1%positive, 2%positive) 120%Z (mkBar 101 101 101 101 10)] in
  Qeq_bool (vget (bal (s_acct s)) 1%positive) 2 = true /\ Qeq_bool (vget (bal (s_acct s)) 2%positive) 798 = true.
Proof. vm_compute. split; reflexivity. Qed.

Example C02_loans_nonvacuous :
  let k := mkCond 2%positive 10 0%Z 0 (1 # 2) in
  let c := mkCfg [(1%positive, 2%nat); (2%positive, 2%nat)] [] None NoFee InfLiq (Margin 2%positive (Some k) []) in
  let p := (1%positive, 2%positive) in
  let ops := [OBar p 60%Z (mkBar 100 100 100 100 10); OLoan 2%positive 50; OLoan 2%positive 30; ORepay 0%nat] in
  let s := run c (init_st [(2%positive, 1000)]) ops in
  cfg_ok c /\ ops_ok ops /\ Qeq_bool (lsum 2%positive s) 30 = true /\ Qeq_bool (vget (bor (s_acct s)) 2%positive) 30 = true.
Proof. cbv zeta. split; [exact I|]. split; [repeat constructor; cbn; discriminate|]. vm_compute. split; reflexivity. Qed.

(* borrowed = open principal (and hold = reservations) along histories with precision changes anywhere *)
Theorem C02_borrowed_is_open_principal_under_reconfiguration : forall c initial xs x,
  cfg_ok c -> xops_ok xs -> (forall kv, In kv initial -> 0 <= snd kv) ->
  let s := snd (xrun (c, init_st initial) xs) in
  vget (bor (s_acct s)) x == lsum x s /\ vget (hold (s_acct s)) x == hsum x s.
Proof. exact loans_holds_reachable_reconf. Qed.
Print Assumptions C02_borrowed_is_open_principal_under_reconfiguration.
