(* C11 — Loan lifecycle and interest.  Property theorems only.
   The model uses the exact elapsed/period ratio where the code goes through a binary float (C11_partial: the
   float path is validated on dyadic ratios only).  Proved over whole histories: the loan list changes only by a grant, a repayment or the
   roll-back of a loan granted at the same instant, and closed loans never change again (LoanLife.v).  "Largest first as
   far as funds allow": the sort (LoanProofs.v) and the loop (RepayOrder.v: every candidate is repaid when its turn comes or
   was refused for lack of funds at that moment); the monitor checks the sentence end to end. *)
From Coq Require Import ZArith QArith List Sorting.Sorted Sorting.Permutation.
From Basana Require Import Num.DecQ Num.DecQProofs Exchange.Model Exchange.AcctProofs Exchange.StepProofs
     Exchange.OpProofs Exchange.LoanProofs Exchange.Prims Exchange.Structure Exchange.LoanLife Exchange.AutoRepayProofs Exchange.RepayOrder.
Import ListNotations.
Open Scope Q_scope.

Theorem C11_interest_ge_min : forall cl l t i, calc_interest cl l t = Ok i -> min_interest (l_cond l) <= i.
Proof. exact calc_interest_ge_min. Qed.
Print Assumptions C11_interest_ge_min.

Theorem C11_interest_nonneg : forall c s l v,
  0 <= min_interest (l_cond l) -> outstanding c s l = Ok v -> 0 <= v.
Proof. exact outstanding_nonneg. Qed.
Print Assumptions C11_interest_nonneg.

Theorem C11_interest_formula_same_symbol : forall cl l t,
  interest_sym (l_cond l) = l_sym l -> (l_created l <= t)%Z ->
  calc_interest cl l t =
  Ok (Qmaxq (if Z.eqb (interest_period (l_cond l)) 0 then interest_pct (l_cond l) / 100 * l_amount l
             else interest_pct (l_cond l) / 100 * l_amount l *
                  (inject_Z (t - l_created l) / inject_Z (interest_period (l_cond l))))
            (min_interest (l_cond l))).
Proof. exact calc_interest_same_symbol. Qed.
Print Assumptions C11_interest_formula_same_symbol.

Theorem C11_interest_monotone_in_time : forall cl l t1 t2 i1 i2,
  interest_sym (l_cond l) = l_sym l -> (l_created l <= t1 <= t2)%Z ->
  0 <= interest_pct (l_cond l) -> 0 <= l_amount l -> (0 < interest_period (l_cond l))%Z ->
  calc_interest cl l t1 = Ok i1 -> calc_interest cl l t2 = Ok i2 -> i1 <= i2.
Proof. exact calc_interest_monotone. Qed.
Print Assumptions C11_interest_monotone_in_time.

Theorem C11_reported_interest_is_truncated : forall c s l v,
  outstanding c s l = Ok v ->
  exists t i p, s_now s = Some t /\ calc_interest (s_close s) l t = Ok i /\
                get_sym_prec c (interest_sym (l_cond l)) = Ok p /\ v = qtrunc p i /\ on_grid p v.
Proof. exact outstanding_spec. Qed.
Print Assumptions C11_reported_interest_is_truncated.

(* repaying debits exactly principal + that interest: totals move by the interest only (principal leaves balance and
   borrowed alike) *)
Theorem C11_repay_debits_interest : forall c s id s' u y,
  repay_loan c s id = Done s' u ->
  exists l i, open_loan s id = Ok l /\ outstanding c s l = Ok i /\
    total (s_acct s') y == total (s_acct s) y - (if Pos.eqb (interest_sym (l_cond l)) y then i else 0).
Proof. exact repay_loan_total. Qed.
Print Assumptions C11_repay_debits_interest.

Theorem C11_closed_or_unknown_loan_cannot_be_repaid : forall c s id,
  (get_loan s id = None \/ exists l, get_loan s id = Some l /\ l_open l = false) ->
  exists e, repay_loan c s id = Fail s e.
Proof. exact repay_not_open_fails. Qed.
Print Assumptions C11_closed_or_unknown_loan_cannot_be_repaid.

Theorem C11_autorepay_order_is_descending : forall ls, LocallySorted desc (sort_desc ls).
Proof. exact sort_desc_sorted. Qed.
Print Assumptions C11_autorepay_order_is_descending.

Theorem C11_autorepay_order_is_a_permutation : forall ls, Permutation ls (sort_desc ls).
Proof. exact sort_desc_perm. Qed.
Print Assumptions C11_autorepay_order_is_a_permutation.

(* over whole histories: every primitive transaction changes the loan list only by appending a new open loan, or by
   closing one open loan through repay_loan (recording the interest charged at that moment) or through the cancellation
   of a loan granted at the same instant; every operation is a sequence of such transactions (C01) *)
Theorem C11_loans_change_only_by_grant_repayment_or_rollback : forall c s s',
  WF s -> prim c s s' -> loans_step c s (s_loans s) (s_loans s').
Proof. exact prim_loans. Qed.
Print Assumptions C11_loans_change_only_by_grant_repayment_or_rollback.

(* a closed loan never changes again *)
Theorem C11_closed_loans_never_change_again : forall c ops s i l,
  cfg_ok c -> ops_ok ops -> WF s ->
  nth_error (s_loans s) i = Some l -> l_open l = false -> nth_error (s_loans (run c s ops)) i = Some l.
Proof. exact closed_loans_final. Qed.
Print Assumptions C11_closed_loans_never_change_again.

(* when an auto-repay order closes, the loop over the candidate loans (largest first) never aborts: each repayment either
   succeeds or is skipped for lack of funds *)
Theorem C11_autorepay_loop_never_aborts : forall c s o,
  RJ s -> stored s o -> check_infos c s (s_loans s) = Ok tt -> exists s' o', repay_loans c s o = Done s' o'.
Proof. exact repay_loans_done. Qed.
Print Assumptions C11_autorepay_loop_never_aborts.

(* "largest first, as far as funds allow": the auto-repay loop visits its candidates in the order given (C11_autorepay_order_*:
   a stable descending permutation of the open loans of the acquired symbol); it reports the loans it repaid, every one of
   them a candidate, and every candidate it did not repay was refused for lack of funds, in the state the loop had reached,
   when its turn came *)
Theorem C11_auto_repay_as_far_as_funds_allow : forall c s ids s' repaid,
  repay_each c s ids [] = Done s' repaid ->
  (forall id, In id repaid -> In id ids) /\
  (forall id, In id ids -> In id repaid \/ exists s0 s1, repay_loan c s0 id = Fail s1 ENotEnough).
Proof. exact auto_repay_as_far_as_funds_allow. Qed.
Print Assumptions C11_auto_repay_as_far_as_funds_allow.

(* a repayment that goes through leaves the loan closed *)
Theorem C11_repayment_closes_the_loan : forall c s id s' u,
  repay_loan c s id = Done s' u -> (id < length (s_loans s))%nat ->
  (forall i l, nth_error (s_loans s) i = Some l -> l_id l = i) ->
  exists l', get_loan s' id = Some l' /\ l_open l' = false.
Proof. exact repay_loan_closes. Qed.
Print Assumptions C11_repayment_closes_the_loan.
