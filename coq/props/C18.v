(* C18 — Websocket channels stay subscribed across faults and route correctly.  Property theorems only.
   Ws/Client.v models the channel bookkeeping of WebSocketClient for ANY sequence of connections, losses,
   registrations, re-subscription flags and subscribe-loop steps (the suspension inside subscribe_to_channels is a
   separate step, so registrations that arrive while a SUBSCRIBE is being sent are covered).  "Eventually" is
   rendered as "in every quiescent state" (C18_partial: that the loops keep running is asyncio-level and is exercised
   on a virtual clock; routing, message handling and the REST calls of the listen key are monitored, not proved). *)
From Coq Require Import List Bool Arith ZArith.
From Basana Require Import Ws.Client Ws.ClientProofs.
Import ListNotations.

Theorem C18_quiescent_means_all_subscribed : forall acts s,
  run init_ws acts = Some s -> quiescent s = true ->
  exists subs, conn s = Some subs /\ forall c, In c (registered s) -> In c subs.
Proof. exact quiescent_subscribed. Qed.
Print Assumptions C18_quiescent_means_all_subscribed.

Theorem C18_invariant_preserved : forall s a s', K s -> step s a = Some s' -> K s'.
Proof. exact step_K. Qed.
Print Assumptions C18_invariant_preserved.

(* a channel flagged for re-subscription (e.g. an expired listen key) makes the subscribe loop runnable on the live
   connection: no reconnection needed (the defect fixed by d817b12) *)
Theorem C18_flagged_channel_wakes_subscribe_loop : forall s cs s',
  step s (Resubscribe cs) = Some s' -> sub_req s' = true /\ forall c, In c cs -> In c (pending s').
Proof. exact resubscription_wakes_the_loop. Qed.
Print Assumptions C18_flagged_channel_wakes_subscribe_loop.

(* listen-key keep-alive: a scheduler job is always pending at the current deadline, and when it fires the key is
   refreshed and the next deadline is one period later *)
Theorem C18_keep_alive_job_always_pending : forall s due now period,
  ka_ok s -> (due <= now)%Z -> In due (jobs s) -> (0 < period)%Z -> ka_ok (ka_fire s due now period).
Proof. exact ka_fire_ok. Qed.
Print Assumptions C18_keep_alive_job_always_pending.
Theorem C18_keep_alive_rearmed_on_subscription : forall s now period, ka_ok (ka_schedule s now period).
Proof. exact ka_schedule_ok. Qed.
Print Assumptions C18_keep_alive_rearmed_on_subscription.
Theorem C18_keep_alive_refreshes : forall s d now period,
  next_ka s = Some d -> (d <= now)%Z ->
  next_ka (ka_fire s d now period) = Some (now + period)%Z /\ In now (refreshed (ka_fire s d now period)).
Proof. exact ka_fire_refreshes. Qed.
Print Assumptions C18_keep_alive_refreshes.

(* successive connection attempts are at least the back-off apart *)
Theorem C18_backoff : forall now last backoff,
  (last <= now)%Z -> (backoff <= (now + backoff_wait now last backoff) - last)%Z.
Proof. exact backoff_respected. Qed.
Print Assumptions C18_backoff.

(* non-vacuity: the history of the repaired defect D10 *)
Example C18_d10_witness :
  match run init_ws [Register 0; Connect; SubTake; SubSent; Resubscribe [0]] with
  | Some s => quiescent s = false /\ sub_req s = true
  | None => False
  end.
Proof. vm_compute. split; reflexivity. Qed.
