(* C10 — Borrowing is refused when the margin requirement is not met.  Property theorems only. *)
From Coq Require Import ZArith QArith List.
From Basana Require Import Num.DecQ Exchange.Model Exchange.AcctProofs Exchange.StepProofs Exchange.OpProofs.
Import ListNotations.
Open Scope Q_scope.

(* With margin lending, an account update that increases any borrowed amount is accepted by the margin
   rule only if no margin is in use afterwards, or the margin level equity / (used margin + interest) * 100,
   valued at the last prices on the UPDATED account, is at least 100. *)
Theorem C10_margin_gate : forall c s q dflt conds cur upd,
  c_lend c = Margin q dflt conds ->
  borrowing cur upd = true ->
  margin_rule c s cur upd = None ->
  margin_level c s q upd = Ok None \/
  exists equity denom, margin_level c s q upd = Ok (Some (equity, denom)) /\ 100 <= equity / denom * 100.
Proof. exact margin_gate. Qed.
Print Assumptions C10_margin_gate.

(* level >= 100 means equity >= required margin (+ interest) *)
Theorem C10_level_means_equity_covers : forall equity denom,
  0 < denom -> 100 <= equity / denom * 100 -> denom <= equity.
Proof. exact level_ge_100. Qed.
Print Assumptions C10_level_means_equity_covers.

(* the update performed by create_loan (explicit or automatic for an order: both go through it) does increase
   what is borrowed, so the gate applies to it *)
Theorem C10_loan_update_borrows : forall a x amount extra a',
  acct_good a -> 0 < amount ->
  acct_update extra a [(x, amount)] [] [(x, amount)] = Ok a' -> borrowing a a' = true.
Proof. exact create_loan_borrows. Qed.
Print Assumptions C10_loan_update_borrows.

(* every loan that is granted passed the gate: in the post-loan account, margin level >= 100 or no margin in use *)
Theorem C10_granted_loan_passed_gate : forall c s x a s' id q dflt conds,
  c_lend c = Margin q dflt conds -> acct_good (s_acct s) ->
  create_loan c s x a = Done s' id ->
  margin_level c s q (s_acct s') = Ok None \/
  exists equity denom, margin_level c s q (s_acct s') = Ok (Some (equity, denom)) /\ 100 <= equity / denom * 100.
Proof. exact granted_loan_passed_gate. Qed.
Print Assumptions C10_granted_loan_passed_gate.

(* without a lending strategy every borrow request fails and changes nothing *)
Theorem C10_noloans : forall c s x a, c_lend c = NoLoans -> exists e, create_loan c s x a = Fail s e.
Proof. exact noloans_create_loan_fails. Qed.
Print Assumptions C10_noloans.

(* non-vacuity: a zero-equity account is refused (the defect fixed by 42ea4f0), a funded one is granted *)
Example C10_zero_equity_refused :
  let k := mkCond 2%positive 10 0%Z 0 (1 # 2) in
  let c := mkCfg [(1%positive, 2%nat); (2%positive, 2%nat)] [] None NoFee InfLiq (Margin 2%positive (Some k) []) in
  let s0 := run c (init_st []) [OBar (1%positive, 2%positive) 60%Z (mkBar 100 100 100 100 10)] in
  let s1 := run c (init_st [(2%positive, 1000)]) [OBar (1%positive, 2%positive) 60%Z (mkBar 100 100 100 100 10)] in
  snd (step c s0 (OLoan 1%positive 1000)) = RErr ENotEnough /\
  snd (step c s1 (OLoan 1%positive 10)) = RId 0%nat.
Proof. vm_compute. split; reflexivity. Qed.
