(* C14 — Dispatcher lifecycle, fault isolation and bounded concurrency.  Property theorems only.
   Lifecycle.v models EventDispatcher.run (phases and TaskGroup semantics), Pool.v models helpers.TaskPool with any
   number of concurrent pushers, at the granularity the instrumented real pool logs.
   C14_partial: "ends promptly" and the delivery of cancellation to handlers in flight are asyncio runtime behaviour:
   they are exercised (every exit path x fault placement, both dispatchers), not proved.  Fault isolation of handlers
   and jobs is what C12/C13's exactly-once checks exercise with raising handlers; it is re-checked here. *)
From Coq Require Import List Arith.
From Basana Require Import Dispatch.Lifecycle Dispatch.Pool Dispatch.LifePoolProofs.
Import ListNotations.

Theorem C14_main_only_after_all_initialized : forall ps p,
  In (CMain p) (calls ps) ->
  any_init_raises ps = false /\
  forall q, In q ps -> exists pre post, calls ps = pre ++ CInit (p_id q) :: post /\ ~ In (CMain p) pre.
Proof. exact main_only_after_all_init. Qed.
Print Assumptions C14_main_only_after_all_initialized.

Theorem C14_finalized_exactly_once : forall ps q,
  NoDup (map p_id ps) -> In q ps -> count_fin (p_id q) (calls ps) = 1.
Proof. exact finalized_exactly_once. Qed.
Print Assumptions C14_finalized_exactly_once.

Theorem C14_never_an_internal_error : forall ps x, run_outcome ps x <> Internal.
Proof. exact outcome_never_internal. Qed.
Print Assumptions C14_never_an_internal_error.

Theorem C14_outcome_is_the_producers_error_or_the_callers_cancellation : forall ps x,
  (run_outcome ps x = RaisedProducerError <-> any_init_raises ps = true \/ any_main_raises ps = true) /\
  (run_outcome ps x = RaisedCancelled -> x = XCancel) /\
  (run_outcome ps x = Returned -> x <> XCancel).
Proof. exact outcome_cases. Qed.
Print Assumptions C14_outcome_is_the_producers_error_or_the_callers_cancellation.

Theorem C14_logging_restored : forall backtesting o, factory_after backtesting o = Original.
Proof. exact logging_restored. Qed.
Print Assumptions C14_logging_restored.

(* bounded concurrency: at every point of every schedule the instrumented pool can produce, with any number of
   concurrent pushers, at most [max] tasks are in the pool *)
Theorem C14_pool_bounded : forall max acts1 acts2 p',
  prun max empty_pool 0 (acts1 ++ acts2) = POk p' ->
  exists p1, prun max empty_pool 0 acts1 = POk p1 /\ length (tasks p1) <= max.
Proof. exact pool_bounded_from_empty. Qed.
Print Assumptions C14_pool_bounded.

(* ... and no finished task is ever collected twice, even when several waiters are handed the same task (the
   KeyError fixed by 1c2793b) *)
Theorem C14_collected_at_most_once : forall max acts p k p',
  disjoint_nodup p -> prun max p k acts = POk p' -> NoDup (done p').
Proof. exact collected_at_most_once. Qed.
Print Assumptions C14_collected_at_most_once.

(* non-vacuity: the schedule of the repaired defect D2 -- two waiters handed the same finished task *)
Example C14_d2_witness :
  match prun 1 empty_pool 0 [AAdd 0; AEnd 0; ACollect [0]; AAdd 1; ACollect [0]; AEnd 1; ACollect [1]] with
  | POk p => done p = [0; 1] /\ tasks p = []
  | PGuard _ _ => False
  end.
Proof. vm_compute. split; reflexivity. Qed.
