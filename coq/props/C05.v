(* C05 — Order lifecycle.  Property theorems only.
   Proved: cancelling a closed or unknown order fails and changes nothing; market and stop orders fill entirely or
   not at all; an order's recorded fill completes it exactly when the filled amount reaches the ordered amount.
   Proved over whole histories: 0 <= filled <= amount for every order in every reachable state, ids = positions.
   Proved over whole histories: a closed order never changes again (Structure.v: the only records an operation rewrites
   are those of orders that were open when it started).  Proved over whole histories: the listing of open orders is exact in every reachable state, wherever the periodic
   re-indexing falls (IndexProofs.v).  Proved over whole histories (Events.v): for every order the events published are one
   for its acceptance, one per fill and one more if it was cancelled, and the last one shows the order as it is -- for
   histories that start with a bar and whose bars were processed without an internal error.  C05_partial: the by-state
   filters of get_orders, and the event sequence after a bar that aborted half-way, are validated by the correspondence check
   (including histories of hundreds of bars) and the monitor. *)
From Coq Require Import ZArith QArith List Sorted.
From Basana Require Import Num.DecQ Exchange.Model Exchange.AcctProofs Exchange.StepProofs Exchange.OpProofs
     Exchange.OrderProofs Exchange.LifeProofs Exchange.Prims Exchange.Structure Exchange.LedgerProofs Exchange.FillBounds Exchange.IndexProofs
     Exchange.Reconfig Exchange.ReconfigProofs
     Exchange.NoPartial Exchange.EventTimes Exchange.FirstBar Exchange.HoldsOpen Exchange.Events.
Import ListNotations.
Open Scope Q_scope.

Theorem C05_cancel_closed_fails : forall c s id,
  (get_order s id = None \/ exists o, get_order s id = Some o /\ is_open o = false) ->
  cancel_order c s id = Fail s EError.
Proof. exact cancel_not_open_fails. Qed.
Print Assumptions C05_cancel_closed_fails.

Theorem C05_market_all_or_nothing : forall c l o b bv qv h,
  impact_cfg_ok c -> bar_ok b -> o_kind o = KMarket ->
  balance_updates c l o b = Ok (Some (bv, qv), h) -> bv == pending o * sign_of (o_op o).
Proof. exact market_whole_amount. Qed.
Print Assumptions C05_market_all_or_nothing.

Theorem C05_stop_all_or_nothing : forall c l o b sp bv qv h,
  impact_cfg_ok c -> bar_ok b -> o_kind o = KStop sp -> 0 < sp ->
  balance_updates c l o b = Ok (Some (bv, qv), h) -> bv == pending o * sign_of (o_op o).
Proof. exact stop_whole_amount. Qed.
Print Assumptions C05_stop_all_or_nothing.

Theorem C05_fill_completes_iff : forall o w b q f,
  is_open o = true ->
  (is_open (add_fill o w b q f) = false <-> o_amount o <= Qabsq (Qred (o_fb o + b))).
Proof. exact add_fill_closes_iff. Qed.
Print Assumptions C05_fill_completes_iff.

Theorem C05_fill_grows : forall o w b q f sg,
  (sg == 1 \/ sg == -1) -> 0 <= o_fb o * sg -> 0 <= b * sg ->
  filled o <= filled (add_fill o w b q f) /\ filled (add_fill o w b q f) == filled o + b * sg.
Proof. exact add_fill_grows. Qed.
Print Assumptions C05_fill_grows.

(* closed orders are skipped by bar processing *)
Theorem C05_closed_not_processed : forall c s l id p when b ids,
  (forall o, get_order s id = Some o -> is_open o = false) ->
  process_all c s l (id :: ids) p when b = process_all c s l ids p when b.
Proof. exact process_all_skips_closed. Qed.
Print Assumptions C05_closed_not_processed.

(* open-order listing = the open items of the index, in index order *)
Theorem C05_listing_filters_index : forall s p,
  snd (list_open s p) =
  filter (fun id => match p, get_order s id with
                    | Some pp, Some o => pair_eqb (o_pair o) pp
                    | None, Some _ => true
                    | _, None => false end)
         (filter (still_open s) (s_open_idx s)).
Proof. exact list_open_spec. Qed.
Print Assumptions C05_listing_filters_index.

(* in every reachable state every order sits at the position given by its id and its filled amount lies between 0 and
   the ordered amount (so filled + remaining = amount with remaining >= 0) *)
Theorem C05_filled_between_zero_and_amount : forall c initial ops i o,
  cfg_ok c -> ops_ok ops ->
  nth_error (s_orders (run c (init_st initial) ops)) i = Some o ->
  o_id o = i /\ 0 <= filled o /\ filled o <= o_amount o.
Proof. exact filled_reachable. Qed.
Print Assumptions C05_filled_between_zero_and_amount.

(* liquidity can always be taken once the balances were updated for a fill: the fill is recorded, never lost *)
Theorem C05_fill_never_exceeds_liquidity_left : forall l a,
  liq_ok l -> 0 < a -> (forall t u, l = Some (t, u) -> a <= t - u) ->
  exists l', take_liquidity l a = Ok l' /\ liq_ok l'.
Proof. exact FillBounds.take_liquidity_total. Qed.
Print Assumptions C05_fill_never_exceeds_liquidity_left.

(* a closed order never changes again: in every state reachable later, by any further operations, its record (state,
   filled amounts, fees, fills, loans) is exactly what it was when it was found closed *)
Theorem C05_closed_orders_never_change_again : forall c initial ops1 ops2 i o,
  cfg_ok c -> ops_ok ops1 -> ops_ok ops2 ->
  nth_error (s_orders (run c (init_st initial) ops1)) i = Some o -> is_open o = false ->
  nth_error (s_orders (run c (init_st initial) (ops1 ++ ops2))) i = Some o.
Proof. exact closed_final_reachable. Qed.
Print Assumptions C05_closed_orders_never_change_again.

Example C05_final_nonvacuous :
  let c := mkCfg [(1%positive, 2%nat); (2%positive, 2%nat)] [] None NoFee InfLiq NoLoans in
  let p := (1%positive, 2%positive) in
  let ops1 := [OBar p 60%Z (mkBar 100 100 100 100 10); OCreate KMarket Buy p 2 false false;
               OBar p 120%Z (mkBar 101 101 101 101 10)] in
  match nth_error (s_orders (run c (init_st [(2%positive, 1000)]) ops1)) 0 with
  | Some o => is_open o = false /\ Qeq_bool (filled o) 2 = true
  | None => False
  end.
Proof. vm_compute. split; reflexivity. Qed.

(* in every reachable state the listing of open orders (optionally of one pair) contains exactly the ids of the open orders
   (of that pair), each once -- however long the history and wherever the re-indexing of the container falls *)
Theorem C05_listing_exact_in_every_reachable_state : forall c initial ops p id,
  cfg_ok c -> ops_ok ops ->
  let s := run c (init_st initial) ops in
  (In id (snd (list_open s p)) <->
   exists o, get_order s id = Some o /\ is_open o = true /\
             match p with Some pp => pair_eqb (o_pair o) pp = true | None => True end) /\
  NoDup (snd (list_open s p)).
Proof. exact listing_exact. Qed.
Print Assumptions C05_listing_exact_in_every_reachable_state.

(* amounts stay within bounds and closed orders stay final along histories with precision changes anywhere *)
Theorem C05_filled_within_bounds_under_reconfiguration : forall c initial xs i o,
  cfg_ok c -> xops_ok xs -> (forall kv, In kv initial -> 0 <= snd kv) ->
  nth_error (s_orders (snd (xrun (c, init_st initial) xs))) i = Some o ->
  o_id o = i /\ 0 <= filled o /\ filled o <= o_amount o.
Proof. exact filled_reachable_reconf. Qed.
Print Assumptions C05_filled_within_bounds_under_reconfiguration.

Theorem C05_closed_orders_final_under_reconfiguration : forall c initial xs1 xs2 i o,
  cfg_ok c -> xops_ok xs1 -> xops_ok xs2 -> (forall kv, In kv initial -> 0 <= snd kv) ->
  nth_error (s_orders (snd (xrun (c, init_st initial) xs1))) i = Some o -> is_open o = false ->
  nth_error (s_orders (snd (xrun (c, init_st initial) (xs1 ++ xs2)))) i = Some o.
Proof. exact closed_final_reconf. Qed.
Print Assumptions C05_closed_orders_final_under_reconfiguration.

(* whole history: market and stop orders never fill partially -- in every reachable state such an order has traded
   nothing or its whole amount, and while it is still open it has traded nothing (its first fill completes it) *)
Theorem C05_market_and_stop_orders_never_fill_partially : forall c initial ops i o,
  cfg_ok c -> ops_ok ops ->
  nth_error (s_orders (run c (init_st initial) ops)) i = Some o ->
  aon (o_kind o) ->
  (filled o == 0 \/ filled o == o_amount o) /\ (is_open o = true -> filled o == 0).
Proof. exact market_stop_never_partial. Qed.
Print Assumptions C05_market_and_stop_orders_never_fill_partially.

(* the premises are met: a market order bigger than the bar's liquidity is not filled at all (and closed), a smaller
   one is filled completely *)
Example C05_never_partial_premises_met :
  let c := mkCfg [(1%positive, 2%nat); (2%positive, 2%nat)] [] None NoFee (VolShare 25 0) NoLoans in
  let p := (1%positive, 2%positive) in
  let ops := [OBar p 60%Z (mkBar 100 100 100 100 10); OCreate KMarket Buy p 5 false false;
              OCreate KMarket Buy p (3#2) false false; OBar p 120%Z (mkBar 100 101 99 100 10)] in
  let s := run c (init_st [(2%positive, 1000)]) ops in
  cfg_ok c /\ ops_ok ops /\
  map (fun o => (is_open o, Qred (filled o))) (s_orders s) = [(false, 0); (false, 3#2)].
Proof.
  cbv zeta. split; [unfold cfg_ok; cbn; discriminate|]. split; [repeat constructor; cbn; discriminate|].
  vm_compute. reflexivity.
Qed.

(* whole history: market and stop orders do not survive the first bar of their pair -- whenever a bar of pair p has been
   processed without an internal error, every market / stop order of pair p that existed before it is closed (filled
   completely, or closed as not filled), wherever the order sits in the open-order index and wherever the periodic
   re-indexing falls *)
Theorem C05_market_and_stop_orders_are_closed_by_the_first_bar : forall c initial ops p when b s',
  cfg_ok c -> ops_ok (ops ++ [OBar p when b]) ->
  let s := run c (init_st initial) ops in
  step c s (OBar p when b) = (s', ROk) ->
  forall id o, get_order s id = Some o -> aon (o_kind o) -> pair_eqb (o_pair o) p = true ->
  exists o', get_order s' id = Some o' /\ is_open o' = false.
Proof. exact market_and_stop_orders_do_not_survive_a_bar. Qed.
Print Assumptions C05_market_and_stop_orders_are_closed_by_the_first_bar.

(* the premises are met: a stop order whose stop price the bar does not reach and a market order too big for the bar's
   liquidity are open before the bar and closed (unfilled) after it, next to a limit order that stays open *)
Example C05_first_bar_premises_met :
  let c := mkCfg [(1%positive, 2%nat); (2%positive, 2%nat)] [] None NoFee (VolShare 25 0) NoLoans in
  let p := (1%positive, 2%positive) in
  let ops := [OBar p 60%Z (mkBar 100 100 100 100 10); OCreate (KStop 150) Buy p 1 false false;
              OCreate KMarket Buy p 5 false false; OCreate (KLimit 50) Buy p 1 false false] in
  let bar := OBar p 120%Z (mkBar 100 101 99 100 10) in
  let s := run c (init_st [(2%positive, 1000)]) ops in
  cfg_ok c /\ ops_ok (ops ++ [bar]) /\ snd (step c s bar) = ROk /\
  map is_open (s_orders s) = [true; true; true] /\
  map is_open (s_orders (fst (step c s bar))) = [false; false; true].
Proof.
  cbv zeta. split; [unfold cfg_ok; cbn; discriminate|]. split; [repeat constructor; cbn; discriminate|].
  vm_compute. repeat split; reflexivity.
Qed.

(* whole history: the order events are emitted in time order and none is dated after the clock of the exchange,
   whatever the operations, as long as the bars arrive in non-decreasing time order (what the dispatcher guarantees) *)
Theorem C05_order_events_are_in_time_order : forall c initial ops,
  times_ok None ops ->
  let s := run c (init_st initial) ops in
  StronglySorted Z.le (map fst (s_events s)) /\
  forall t, s_now s = Some t -> Forall (fun e => (fst e <= t)%Z) (s_events s).
Proof. exact events_in_time_order. Qed.
Print Assumptions C05_order_events_are_in_time_order.

Example C05_events_premises_met :
  let c := mkCfg [(1%positive, 2%nat); (2%positive, 2%nat)] [] None NoFee InfLiq NoLoans in
  let p := (1%positive, 2%positive) in
  let ops := [OBar p 60%Z (mkBar 100 100 100 100 10); OCreate KMarket Buy p 5 false false;
              OCreate (KLimit 90) Buy p 1 false false; OBar p 120%Z (mkBar 100 101 99 100 10); OCancel 1%nat] in
  times_ok None ops /\ map fst (s_events (run c (init_st [(2%positive, 1000)]) ops)) = [60; 60; 120; 120]%Z.
Proof. cbv zeta. split; [cbn; repeat split; discriminate|]. vm_compute. reflexivity. Qed.

(* whole history: the order events mirror the orders -- for every order of every state reached by a history that starts
   with a bar (the exchange has a clock) and whose bars were processed without an internal error, the events published for
   it are one for its acceptance, one per fill and one more if it was cancelled (a market / stop order closed as not filled
   counts as cancelled), and the last of them shows the order as it is now (everything but the internal stop-hit latch,
   which the published order info does not carry) *)
Theorem C05_order_events_mirror_the_order : forall c initial ops i o,
  cfg_ok c -> ops_ok ops -> NoDup (map fst initial) -> (forall kv, In kv initial -> 0 <= snd kv) ->
  bars_processed c initial ops -> clocked ops -> times_ok None ops ->
  let s := run c (init_st initial) ops in
  nth_error (s_orders s) i = Some o ->
  exists earlier lst, evs_of i (s_events s) = earlier ++ [lst] /\ pub lst = pub o /\
    length (earlier ++ [lst]) = (1 + length (o_fills o) + canceled o)%nat.
Proof. exact order_events_mirror_the_order. Qed.
Print Assumptions C05_order_events_mirror_the_order.

(* the premises are met: a limit order filled in two parts (3 events), a market order too big for the bar (accepted,
   then closed unfilled: 2 events) and a limit order cancelled by the strategy (2 events) *)
Example C05_events_mirror_premises_met :
  let c := mkCfg [(1%positive, 2%nat); (2%positive, 2%nat)] [] None NoFee (VolShare 25 0) NoLoans in
  let p := (1%positive, 2%positive) in
  let ops := [OBar p 60%Z (mkBar 100 100 100 100 10); OCreate (KLimit 100) Buy p 4 false false;
              OCreate KMarket Buy p 50 false false; OCreate (KLimit 50) Buy p 1 false false;
              OBar p 120%Z (mkBar 100 101 99 100 10); OBar p 180%Z (mkBar 100 101 99 100 10); OCancel 2%nat] in
  let initial := [(2%positive, 10000)] in
  let s := run c (init_st initial) ops in
  cfg_ok c /\ ops_ok ops /\ NoDup (map fst initial) /\ bars_processed c initial ops /\ clocked ops /\ times_ok None ops /\
  map (fun o => (length (evs_of (o_id o) (s_events s)), length (o_fills o), canceled o)) (s_orders s) =
    [(3, 2, 0); (2, 0, 1); (2, 0, 1)]%nat.
Proof.
  cbv zeta. split; [cbn; discriminate|]. split; [repeat constructor; cbn; discriminate|].
  split; [repeat constructor; intros []|]. split; [apply bars_processed_of_bool; vm_compute; reflexivity|].
  split; [exact I|]. split; [cbn; repeat split; discriminate|].
  vm_compute. reflexivity.
Qed.
