(* C01 — Ledger conservation.  Property theorems only.
   total a x = balance - borrowed = available + on hold - borrowed.
   Proved: how AccountBalances.update and every loan operation move the totals of EVERY symbol (second sentence
   of the property, and the account side of the first).  C01_partial: the global equation
   total = initial + fills - fees - interest over whole histories (which also needs the order records to match the
   account updates of every fill) is validated by the correspondence check and the monitor, not proved. *)
From Coq Require Import ZArith QArith List.
From Basana Require Import Num.DecQ Exchange.Model Exchange.AcctProofs Exchange.StepProofs Exchange.OpProofs.
Import ListNotations.
Open Scope Q_scope.

(* one account update: totals move by the balance updates minus the borrowed updates; holds never move them *)
Theorem C01_update_moves_total : forall extra a db dh dbo a' x,
  acct_update extra a db dh dbo = Ok a' -> total a' x == total a x + vsum db x - vsum dbo x.
Proof. exact acct_update_total. Qed.
Print Assumptions C01_update_moves_total.

Theorem C01_reserving_or_releasing_keeps_totals : forall c s dh s' u y,
  upd_acct c s [] dh [] = Done s' u -> total (s_acct s') y == total (s_acct s) y.
Proof. exact hold_update_total. Qed.
Print Assumptions C01_reserving_or_releasing_keeps_totals.

Theorem C01_create_loan_keeps_totals : forall c s x a s' id y,
  create_loan c s x a = Done s' id -> total (s_acct s') y == total (s_acct s) y.
Proof. exact create_loan_total. Qed.
Print Assumptions C01_create_loan_keeps_totals.

Theorem C01_cancel_loan_keeps_totals : forall c s id s' u y,
  cancel_loan c s id = Done s' u -> total (s_acct s') y == total (s_acct s) y.
Proof. exact cancel_loan_total. Qed.
Print Assumptions C01_cancel_loan_keeps_totals.

(* repaying: the principal leaves balance and borrowed alike; only the interest leaves the account *)
Theorem C01_repay_moves_total_by_interest_only : forall c s id s' u y,
  repay_loan c s id = Done s' u ->
  exists l i, open_loan s id = Ok l /\ outstanding c s l = Ok i /\
    total (s_acct s') y == total (s_acct s) y - (if Pos.eqb (interest_sym (l_cond l)) y then i else 0).
Proof. exact repay_loan_total. Qed.
Print Assumptions C01_repay_moves_total_by_interest_only.

(* rejected loan operations change nothing at all *)
Theorem C01_rejected_loan_ops_change_nothing : forall c s x a s' e,
  create_loan c s x a = Fail s' e -> s' = s.
Proof. exact create_loan_fail_unchanged. Qed.
Print Assumptions C01_rejected_loan_ops_change_nothing.

Example C01_nonvacuous :
  let k := mkCond 2%positive 10 0%Z 0 (1 # 2) in
  let c := mkCfg [(1%positive, 2%nat); (2%positive, 2%nat)] [] None NoFee InfLiq (Margin 2%positive (Some k) []) in
  let s1 := run c (init_st [(2%positive, 1000)]) [OBar (1%positive, 2%positive) 60%Z (mkBar 100 100 100 100 10)] in
  let s2 := fst (step c s1 (OLoan 1%positive 5)) in
  Qeq_bool (total (s_acct s2) 1%positive) 0 = true /\ Qeq_bool (vget (bor (s_acct s2)) 1%positive) 5 = true.
Proof. vm_compute. split; reflexivity. Qed.
