(* C01 — Ledger conservation.  Property theorems only.
   total a x = balance - borrowed = available + on hold - borrowed.
   Proved: how AccountBalances.update and every loan operation move the totals of EVERY symbol (second sentence of
   the property), and the global equation total = initial + fills + fees (<= 0) - interest paid, for every symbol, in
   every state reachable through any operation sequence (first sentence): every operation of the model is a sequence
   of primitive transactions (Structure.v) and every primitive transaction keeps the ledger (LedgerProofs.v). *)
From Coq Require Import ZArith QArith List.
From Basana Require Import Num.DecQ Exchange.Model Exchange.AcctProofs Exchange.StepProofs Exchange.OpProofs
     Exchange.Prims Exchange.Structure Exchange.LedgerProofs
     Exchange.Reconfig Exchange.ReconfigProofs.
Import ListNotations.
Open Scope Q_scope.

(* one account update: totals move by the balance updates minus the borrowed updates; holds never move them *)
Theorem C01_update_moves_total : forall extra a db dh dbo a' x,
  acct_update extra a db dh dbo = Ok a' -> total a' x == total a x + vsum db x - vsum dbo x.
Proof. exact acct_update_total. Qed.
Print Assumptions C01_update_moves_total.

Theorem C01_reserving_or_releasing_keeps_totals : forall c s dh s' u y,
  upd_acct c s [] dh [] = Done s' u -> total (s_acct s') y == total (s_acct s) y.
Proof. exact hold_update_total. Qed.
Print Assumptions C01_reserving_or_releasing_keeps_totals.

Theorem C01_create_loan_keeps_totals : forall c s x a s' id y,
  create_loan c s x a = Done s' id -> total (s_acct s') y == total (s_acct s) y.
Proof. exact create_loan_total. Qed.
Print Assumptions C01_create_loan_keeps_totals.

Theorem C01_cancel_loan_keeps_totals : forall c s id s' u y,
  cancel_loan c s id = Done s' u -> total (s_acct s') y == total (s_acct s) y.
Proof. exact cancel_loan_total. Qed.
Print Assumptions C01_cancel_loan_keeps_totals.

(* repaying: the principal leaves balance and borrowed alike; only the interest leaves the account *)
Theorem C01_repay_moves_total_by_interest_only : forall c s id s' u y,
  repay_loan c s id = Done s' u ->
  exists l i, open_loan s id = Ok l /\ outstanding c s l = Ok i /\
    total (s_acct s') y == total (s_acct s) y - (if Pos.eqb (interest_sym (l_cond l)) y then i else 0).
Proof. exact repay_loan_total. Qed.
Print Assumptions C01_repay_moves_total_by_interest_only.

(* rejected loan operations change nothing at all *)
Theorem C01_rejected_loan_ops_change_nothing : forall c s x a s' e,
  create_loan c s x a = Fail s' e -> s' = s.
Proof. exact create_loan_fail_unchanged. Qed.
Print Assumptions C01_rejected_loan_ops_change_nothing.

(* the whole-history ledger: in every state reachable from non-negative initial balances, by any sequence of bars,
   order requests, cancellations, loans, repayments and listings (bars with non-negative volume, volume limit >= 0):
   balance - borrowed = initial + what all orders exchanged (base and quote amounts of their fills, signed)
                        + the fees charged to them (<= 0) - the interest paid on loans,     per symbol *)
Theorem C01_ledger_in_every_reachable_state : forall c initial ops x,
  cfg_ok c -> ops_ok ops -> (forall kv, In kv initial -> 0 <= snd kv) ->
  let s := run c (init_st initial) ops in
  total (s_acct s) x == vget (bal (init_acct initial)) x + osum x s - psum x s.
Proof. exact ledger_reachable. Qed.
Print Assumptions C01_ledger_in_every_reachable_state.

(* the structural fact behind it: every operation, accepted or rejected, is a finite sequence of primitive
   transactions between well-formed states *)
Theorem C01_every_operation_is_primitive_transactions : forall c s o,
  cfg_ok c -> op_ok o -> WF s -> WF (fst (step c s o)) /\ prims c s (fst (step c s o)).
Proof. exact step_prims. Qed.
Print Assumptions C01_every_operation_is_primitive_transactions.

(* and every primitive transaction keeps the ledger constant *)
Theorem C01_primitive_transactions_keep_the_ledger : forall c K s s',
  WF s -> ledger_inv K s -> prim c s s' -> ledger_inv K s'.
Proof. exact ledger_prim. Qed.
Print Assumptions C01_primitive_transactions_keep_the_ledger.

Example C01_nonvacuous :
  let k := mkCond 2%positive 10 0%Z 0 (1 # 2) in
  let c := mkCfg [(1%positive, 2%nat); (2%positive, 2%nat)] [] None NoFee InfLiq (Margin 2%positive (Some k) []) in
  let s1 := run c (init_st [(2%positive, 1000)]) [OBar (1%positive, 2%positive) 60%Z (mkBar 100 100 100 100 10)] in
  let s2 := fst (step c s1 (OLoan 1%positive 5)) in
  Qeq_bool (total (s_acct s2) 1%positive) 0 = true /\ Qeq_bool (vget (bor (s_acct s2)) 1%positive) 5 = true.
Proof. vm_compute. split; reflexivity. Qed.

(* the premises of the ledger theorem are met by a history with a partial fill, a fee and an interest payment, and the
   three terms of the equation are all non-zero there *)
Example C01_ledger_nonvacuous :
  let k := mkCond 2%positive 10 0%Z 0 (1 # 2) in
  let c := mkCfg [(1%positive, 2%nat); (2%positive, 2%nat)] [] None (PctFee 1 0) (VolShare 25 0)
                 (Margin 2%positive (Some k) []) in
  let p := (1%positive, 2%positive) in
  let ops := [OBar p 60%Z (mkBar 100 100 100 100 10); OLoan 2%positive 50;
              OCreate (KLimit 100) Buy p 5 false false; OBar p 120%Z (mkBar 100 100 100 100 8);
              ORepay 0%nat] in
  let s := run c (init_st [(2%positive, 1000)]) ops in
  cfg_ok c /\ ops_ok ops /\
  Qeq_bool (osum 1%positive s) 2 = true /\ Qeq_bool (osum 2%positive s) (-202) = true /\
  Qeq_bool (psum 2%positive s) 5 = true /\ Qeq_bool (total (s_acct s) 2%positive) (1000 - 202 - 5) = true.
Proof.
  cbv zeta. split; [cbn; discriminate|]. split; [repeat constructor; cbn; discriminate|].
  vm_compute. repeat split; reflexivity.
Qed.

(* the same, along histories in which a strategy changes precisions (Exchange.set_symbol_precision / set_pair_info)
   between any two operations: the ledger does not depend on the configuration staying fixed *)
Theorem C01_ledger_holds_under_reconfiguration : forall c initial xs x,
  cfg_ok c -> xops_ok xs -> (forall kv, In kv initial -> 0 <= snd kv) ->
  let s := snd (xrun (c, init_st initial) xs) in
  total (s_acct s) x == vget (bal (init_acct initial)) x + osum x s - psum x s.
Proof. exact ledger_reachable_reconf. Qed.
Print Assumptions C01_ledger_holds_under_reconfiguration.

(* a history without setters is a history of the plain model: the theorem above extends the one before it *)
Theorem C01_reconfiguration_layer_is_conservative : forall c ops s, xrun (c, s) (map XOp ops) = (c, run c s ops).
Proof. exact xrun_plain. Qed.
Print Assumptions C01_reconfiguration_layer_is_conservative.
