(* C20 — Token bucket bounds the request rate.
   Property theorems only: each is closed by [exact] of a lemma proved in TokenBucket/Proofs.v. *)
From Coq Require Import ZArith QArith List.
From Basana Require Import TokenBucket.Model TokenBucket.Proofs.
Import ListNotations.
Open Scope Q_scope.

(* Every limiter built by the constructor, at any clock value, is well formed. *)
Theorem C20_init_wf : forall tp pd ini now, 0 < tp -> 0 < pd -> 0 <= ini -> wf (init tp pd ini now).
Proof. exact init_wf. Qed.
Print Assumptions C20_init_wf.

(* capacity = tokens per period, or the initial tokens if larger *)
Theorem C20_capacity : forall tp pd ini now,
  (tp <= ini -> cap (init tp pd ini now) == ini) /\ (ini <= tp -> cap (init tp pd ini now) == tp).
Proof. exact init_cap. Qed.
Print Assumptions C20_capacity.

(* well-formedness is preserved by every consume, whatever the clock does *)
Theorem C20_wf_preserved : forall s now, wf s -> wf (fst (consume s now)).
Proof. exact consume_wf. Qed.
Print Assumptions C20_wf_preserved.

(* never a negative wait, for every arrival sequence *)
Theorem C20_wait_nonneg : forall s arr, wf s -> Forall (fun w => 0 <= w) (waits s arr).
Proof. exact waits_nonneg. Qed.
Print Assumptions C20_wait_nonneg.

(* If every caller waits what consume() returned, then in any window [t, t+L] at most
   capacity + rate*L + 1 requests are sent: for every configuration, every non-decreasing arrival
   list of any length, every t and every L >= 0. *)
Theorem C20_rate_bound : forall s arr t L,
  wf s -> sorted_from (last s) arr -> 0 <= L ->
  qn (count_win t L (sends s arr)) <= cap s + rate s * L + 1.
Proof. exact rate_bound. Qed.
Print Assumptions C20_rate_bound.

(* tokens refill at [rate] up to the capacity *)
Theorem C20_refill : forall s now,
  wf s -> last s <= now ->
  let pre := tokens (fst (consume s now)) + 1 in
  (tokens s + (now - last s) * rate s <= cap s -> pre == tokens s + (now - last s) * rate s) /\
  (cap s <= tokens s + (now - last s) * rate s -> pre == cap s) /\
  pre <= cap s.
Proof. exact refill_rate_and_cap. Qed.
Print Assumptions C20_refill.

(* the (k+1)-th of a burst of simultaneous requests made when [a] tokens are available waits exactly
   max(0, (k+1) - a) / rate   (irate = 1 / rate) *)
Theorem C20_burst_delay_exact : forall s k,
  wf s ->
  let a := tokens s in
  let kq := inject_Z (Z.of_nat (S k)) in
  (kq <= a -> burst_wait s k == 0) /\
  (a < kq -> burst_wait s k == (kq - a) * irate s).
Proof. exact burst_delay_exact. Qed.
Print Assumptions C20_burst_delay_exact.

Theorem C20_rate_irate : forall s, wf s -> rate s * irate s == 1.
Proof. exact rate_irate. Qed.
Print Assumptions C20_rate_irate.

(* Non-vacuity: a concrete non-trivial limiter and arrival list meet the hypotheses, and the bound
   is attained up to the +1 slack: TokenBucketLimiter(5, 10, 8), 12 requests at t=0. *)
Example C20_premises_satisfiable :
  let s := init 5 10 8 0 in
  wf s /\ sorted_from (last s) [0;0;0;0;0;0;0;0;0;0;0;0] /\
  count_win 0 0 (sends s [0;0;0;0;0;0;0;0;0;0;0;0]) = 8%nat /\
  Qeq_bool (cap s) 8 = true.
Proof.
  split; [apply init_wf; [reflexivity | reflexivity | discriminate]|].
  split; [cbn; repeat split; discriminate|].
  split; vm_compute; reflexivity.
Qed.
