(* C13 — Scheduled jobs run exactly once, on time and in order.  Property theorems only.
   The model (Dispatch/Backtest.v) is the dispatch loop after the fixes a3b7fa5 and 1d281e0.  heapq is modelled as a
   multiset whose pop is checked to return a minimum (which minimal job among equal times is an input).
   Proved, for every state, every handler/job behaviour and every oracle: the job that runs is a pending one with the
   smallest scheduled time, due (<= the next event time / the drain bound), run with the clock at max(clock, its time);
   the scheduling phase is left for the events of dt only when no job is due at or before dt; the final drain bound
   is the latest pending job.  Proved over whole runs: no job is lost or run twice (pending + executed = initial + scheduled, as multisets) and
   the clocks of successive executions never decrease.  When run() has returned every job still pending is later than the drain
   bound, i.e. later than the latest job pending when the sources first ran dry (DrainProofs.v).  The tie to the code is the
   correspondence check and the monitor (all insertion orders of up to 6 distinct times are swept exhaustively). *)
From Coq Require Import ZArith List.
From Basana Require Import Dispatch.Backtest Dispatch.BacktestProofs Dispatch.MuxProofs Dispatch.RunProofs Dispatch.OnceProofs Dispatch.DrainProofs.
Import ListNotations.
Open Scope Z_scope.

Theorem C13_runs_a_minimum_on_time : forall beh_ev beh_job s oracle dt drain j wj clk s' o',
  d_pc s = PSched dt drain ->
  step beh_ev beh_job s oracle = (s', o') ->
  In (IJob j wj clk) (trace_ext s s') ->
  In (wj, j) (d_sched s) /\ wj <= dt /\ wj <= clk /\
  (forall w k, In (w, k) (d_sched s) -> wj <= w) /\
  (match d_last s with Some l => clk = Z.max l wj | None => clk = wj end).
Proof. exact sched_step_runs_minimum. Qed.
Print Assumptions C13_runs_a_minimum_on_time.

Theorem C13_due_jobs_before_events : forall beh_ev beh_job s oracle dt s' o',
  d_pc s = PSched dt false ->
  step beh_ev beh_job s oracle = (s', o') ->
  d_pc s' = PEvents dt ->
  forall w k, In (w, k) (d_sched s') -> dt < w.
Proof. exact sched_phase_exhausts_due_jobs. Qed.
Print Assumptions C13_due_jobs_before_events.

Theorem C13_final_drain_bound_is_the_latest_job : forall beh_ev beh_job s oracle s' o' d,
  d_pc s = PTop -> d_drain s = None ->
  step beh_ev beh_job s oracle = (s', o') ->
  d_pc s' = PSched d true ->
  forall w k, In (w, k) (d_sched s') -> w <= d.
Proof. exact drain_bound_covers_every_pending_job. Qed.
Print Assumptions C13_final_drain_bound_is_the_latest_job.

(* whole run: executed jobs and pending jobs together are exactly the jobs ever scheduled -- none lost, none run twice *)
Theorem C13_jobs_neither_lost_nor_duplicated : forall beh_ev beh_job srcs jobs oracle fuel q,
  let s := fst (run beh_ev beh_job fuel (init_d srcs jobs) oracle) in
  (cnt q (d_sched s) + cnt q (executed (d_trace s)) = cnt q jobs + cnt q (scheduled beh_ev beh_job (d_trace s)))%nat.
Proof. intros. apply run_delivers_exactly_once. Qed.
Print Assumptions C13_jobs_neither_lost_nor_duplicated.

(* whole run: a job never runs before its time, and the clock never goes back between executions *)
Theorem C13_jobs_on_time_over_the_whole_run : forall beh_ev beh_job srcs jobs oracle fuel,
  let s := fst (run beh_ev beh_job fuel (init_d srcs jobs) oracle) in
  sorted_le (map clk (d_trace s)) /\ forall it, In it (d_trace s) -> due it <= clk it.
Proof. exact run_clock_monotone. Qed.
Print Assumptions C13_jobs_on_time_over_the_whole_run.

(* whole run: when run() has returned, every job still pending is later than the drain bound; if no job was pending
   when the sources ran dry, none is left *)
Theorem C13_returned_run_left_only_later_jobs : forall beh_ev beh_job srcs jobs oracle fuel,
  let s := fst (run beh_ev beh_job fuel (init_d srcs jobs) oracle) in
  d_pc s = PDone ->
  match d_drain s with
  | Some d => forall w j, In (w, j) (d_sched s) -> d < w
  | None => d_sched s = []
  end.
Proof. exact returned_run_left_only_later_jobs. Qed.
Print Assumptions C13_returned_run_left_only_later_jobs.

(* non-vacuity: the witness of the repaired defect D1 -- jobs inserted at 10, 50, 20 after the last event all run, in order *)
Example C13_d1_witness :
  let '(s, _) := run (fun _ => []) (fun _ => []) 40 (init_d [[mkEv 5 1]] [(10, 1%nat); (50, 2%nat); (20, 3%nat)])
                     [1%nat; 3%nat; 2%nat] in
  d_pc s = PDone /\
  d_trace s = [IEv 0 (mkEv 5 1) 5; IJob 1 10 10; IJob 3 20 20; IJob 2 50 50].
Proof. vm_compute. split; reflexivity. Qed.
