(* C09 — Percentage fees are exact, rounded up once, never negative.  Property theorems only.
   Fees are negative numbers in the model, as in the code (OrderInfo.fees reports their opposite). *)
From Coq Require Import ZArith QArith List.
From Basana Require Import Num.DecQ Num.DecQProofs Exchange.Model Exchange.FeeProofs Exchange.OrderProofs
     Exchange.Structure Exchange.FeeHistory.
Import ListNotations.
Open Scope Q_scope.

(* After ANY sequence of partial fills (any count, any sizes; quote amounts of the order's side), starting from a
   fresh order, the total charged is the fee due on the cumulative traded quote amount -- percentage, but at least
   the minimum -- rounded up to quote precision once:  o_fee = roundup_qp (- max(|Q| * pct / 100, min)). *)
Theorem C09_fees_total : forall c qp pct mn sg fills o o',
  c_fee c = PctFee pct mn -> 0 <= pct -> 0 <= mn -> (sg == 1 \/ sg == -1) ->
  same_side sg fills ->
  fee_inv pct mn qp sg o ->
  apply_fills c qp o fills = Some o' ->
  fee_inv pct mn qp sg o'.
Proof. exact fees_total. Qed.
Print Assumptions C09_fees_total.

(* one fill *)
Theorem C09_fee_after_fill : forall c qp o pct mn w bv qv fee,
  c_fee c = PctFee pct mn -> 0 <= mn ->
  on_grid qp (o_fee o) ->
  (o_fee o == 0 \/ exists x0, o_fee o == qroundup qp x0 /\ fee_target pct mn (o_fq o + qv) <= x0 /\ x0 < 0) ->
  calc_fee c qp o qv = Ok fee ->
  o_fee (add_fill o w bv qv (fee_val fee)) == qroundup qp (fee_target pct mn (o_fq o + qv)).
Proof. exact fee_after_fill. Qed.
Print Assumptions C09_fee_after_fill.

(* what one fill charges is a fee, never a refund, and is a multiple of the quote precision *)
Theorem C09_charge_nonpos_on_grid : forall c qp o qv fee,
  calc_fee c qp o qv = Ok fee -> fee_val fee <= 0 /\ on_grid qp (fee_val fee).
Proof. exact fee_charge_nonpos. Qed.
Print Assumptions C09_charge_nonpos_on_grid.

Theorem C09_nofee : forall c qp o qv, c_fee c = NoFee -> calc_fee c qp o qv = Ok None.
Proof. exact nofee_charges_nothing. Qed.
Print Assumptions C09_nofee.

(* a fresh order satisfies the invariant (never traded: nothing charged) *)
Example C09_fresh_order_inv : forall pct mn qp sg k op p a ab ar,
  fee_inv pct mn qp sg (mkOrder 0 k op p a SOpen 0 0 0 false ab ar [] []).
Proof.
  intros. unfold fee_inv. cbn [o_fee o_fq]. split; [apply on_grid_zero|]. split; [ring_simplify; apply Qle_refl|].
  left. split; reflexivity.
Qed.

(* non-vacuity: 1% with minimum 0, quote precision 2; fills of 0.90 then 0.05 (sell side): 0.01 charged in total *)
Example C09_two_small_fills :
  let c := mkCfg [] [] None (PctFee 1 0) InfLiq NoLoans in
  match apply_fills c 2 (mkOrder 0 KMarket Sell (1%positive, 2%positive) 10 SOpen 0 0 0 false false false [] [])
                    [(-(1), 9 # 10); (-(1), 5 # 100)] with
  | Some o => Qeq_bool (o_fee o) (-(1 # 100)) = true
  | None => False
  end.
Proof. vm_compute. reflexivity. Qed.

(* whole history: in every state reachable through any operation sequence whose bars are well formed with positive
   prices, under any percentage scheme, for every order: nothing traded and nothing charged, or the total charged is
   the percentage of the total traded quote amount, at least the minimum, rounded up to the quote precision of the
   order's pair (fees are negative numbers in the model) *)
Theorem C09_fees_follow_the_formula_in_every_reachable_state : forall c pct mn,
  c_fee c = PctFee pct mn -> 0 <= pct -> 0 <= mn -> impact_cfg_ok c ->
  forall initial ops i o bp qp,
  cfg_ok c -> ops_ok ops -> bars_ok ops ->
  nth_error (s_orders (run c (init_st initial) ops)) i = Some o ->
  get_pair_info c (o_pair o) = Ok (bp, qp) ->
  (o_fq o == 0 /\ o_fee o == 0) \/
  (~ o_fq o == 0 /\ o_fee o == qroundup qp (- Qmaxq (Qabsq (o_fq o) * pct / 100) mn)).
Proof. exact fees_follow_formula_reachable. Qed.
Print Assumptions C09_fees_follow_the_formula_in_every_reachable_state.

Theorem C09_no_fee_scheme_never_charges : forall c initial ops i o,
  c_fee c = NoFee -> cfg_ok c -> ops_ok ops ->
  nth_error (s_orders (run c (init_st initial) ops)) i = Some o -> o_fee o == 0.
Proof. exact no_fee_reachable. Qed.
Print Assumptions C09_no_fee_scheme_never_charges.

(* the premises are met by a history in which an order is filled in two slivers under a fee with a minimum *)
Example C09_history_premises_met :
  let c := mkCfg [(1%positive, 2%nat); (2%positive, 2%nat)] [] None (PctFee (1#4) (1#2)) (VolShare 25 0) NoLoans in
  let p := (1%positive, 2%positive) in
  let ops := [OBar p 60%Z (mkBar 100 100 100 100 10); OCreate (KLimit (10001#100)) Buy p 5 false false;
              OBar p 120%Z (mkBar 100 101 99 100 (4#10)); OBar p 180%Z (mkBar 100 101 99 100 (41#7))] in
  let s := run c (init_st [(2%positive, 1000)]) ops in
  impact_cfg_ok c /\ cfg_ok c /\ ops_ok ops /\ bars_ok ops /\
  match nth_error (s_orders s) 0 with
  | Some o => length (o_fills o) = 2%nat /\ Qeq_bool (o_fq o) (-156) = true /\ Qeq_bool (o_fee o) (- (1#2)) = true
  | None => False
  end.
Proof.
  cbv zeta. split; [unfold impact_cfg_ok; cbn; discriminate|]. split; [unfold cfg_ok; cbn; discriminate|].
  split; [repeat constructor; cbn; discriminate|].
  split.
  - intros p w b Hin. cbn [In] in Hin.
    repeat (destruct Hin as [Hin|Hin]; [try discriminate Hin; inversion Hin; subst; unfold bar_ok; cbn; repeat split; discriminate|]).
    contradiction.
  - vm_compute. repeat split; reflexivity.
Qed.
