(* C09 — Percentage fees are exact, rounded up once, never negative.  Property theorems only.
   Fees are negative numbers in the model, as in the code (OrderInfo.fees reports their opposite). *)
From Coq Require Import ZArith QArith List.
From Basana Require Import Num.DecQ Num.DecQProofs Exchange.Model Exchange.FeeProofs.
Import ListNotations.
Open Scope Q_scope.

(* After ANY sequence of partial fills (any count, any sizes; quote amounts of the order's side), starting from a
   fresh order, the total charged is the fee due on the cumulative traded quote amount -- percentage, but at least
   the minimum -- rounded up to quote precision once:  o_fee = roundup_qp (- max(|Q| * pct / 100, min)). *)
Theorem C09_fees_total : forall c qp pct mn sg fills o o',
  c_fee c = PctFee pct mn -> 0 <= pct -> 0 <= mn -> (sg == 1 \/ sg == -1) ->
  same_side sg fills ->
  fee_inv pct mn qp sg o ->
  apply_fills c qp o fills = Some o' ->
  fee_inv pct mn qp sg o'.
Proof. exact fees_total. Qed.
Print Assumptions C09_fees_total.

(* one fill *)
Theorem C09_fee_after_fill : forall c qp o pct mn w bv qv fee,
  c_fee c = PctFee pct mn -> 0 <= mn ->
  on_grid qp (o_fee o) ->
  (o_fee o == 0 \/ exists x0, o_fee o == qroundup qp x0 /\ fee_target pct mn (o_fq o + qv) <= x0 /\ x0 < 0) ->
  calc_fee c qp o qv = Ok fee ->
  o_fee (add_fill o w bv qv (fee_val fee)) == qroundup qp (fee_target pct mn (o_fq o + qv)).
Proof. exact fee_after_fill. Qed.
Print Assumptions C09_fee_after_fill.

(* what one fill charges is a fee, never a refund, and is a multiple of the quote precision *)
Theorem C09_charge_nonpos_on_grid : forall c qp o qv fee,
  calc_fee c qp o qv = Ok fee -> fee_val fee <= 0 /\ on_grid qp (fee_val fee).
Proof. exact fee_charge_nonpos. Qed.
Print Assumptions C09_charge_nonpos_on_grid.

Theorem C09_nofee : forall c qp o qv, c_fee c = NoFee -> calc_fee c qp o qv = Ok None.
Proof. exact nofee_charges_nothing. Qed.
Print Assumptions C09_nofee.

(* a fresh order satisfies the invariant (never traded: nothing charged) *)
Example C09_fresh_order_inv : forall pct mn qp sg k op p a ab ar,
  fee_inv pct mn qp sg (mkOrder 0 k op p a SOpen 0 0 0 false ab ar [] []).
Proof.
  intros. unfold fee_inv. cbn [o_fee o_fq]. split; [apply on_grid_zero|]. split; [ring_simplify; apply Qle_refl|].
  left. split; reflexivity.
Qed.

(* non-vacuity: 1% with minimum 0, quote precision 2; fills of 0.90 then 0.05 (sell side): 0.01 charged in total *)
Example C09_two_small_fills :
  let c := mkCfg [] [] None (PctFee 1 0) InfLiq NoLoans in
  match apply_fills c 2 (mkOrder 0 KMarket Sell (1%positive, 2%positive) 10 SOpen 0 0 0 false false false [] [])
                    [(-(1), 9 # 10); (-(1), 5 # 100)] with
  | Some o => Qeq_bool (o_fee o) (-(1 # 100)) = true
  | None => False
  end.
Proof. vm_compute. reflexivity. Qed.
