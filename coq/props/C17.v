(* C17 — Order parameters and exchange payloads cross the wire without loss.  Property theorems only.
   fmt_f models format(d, "f"), which both clients apply to every Decimal parameter (a7974de, 0e13cad).
   C17_partial: the float division inside timestamp_to_datetime (ts / 1e3, fromtimestamp) is validated on dense
   samples against the integer model proved here; Decimal(str) of payload numerals is Python's. *)
From Coq Require Import ZArith QArith List Bool.
From Coq Require String.
From Basana Require Import Wire.DecStr Wire.DecStrProofs Wire.Decode.
Import ListNotations.

(* the text sent denotes exactly the caller's decimal: every sign, coefficient and exponent *)
Theorem C17_fixed_point_text_is_exact : forall d, fixed_value (fmt_f d) == value d.
Proof. exact fmt_f_value. Qed.
Print Assumptions C17_fixed_point_text_is_exact.

(* it consists of decimal digits only, with exactly -exponent fraction digits: no exponent marker *)
Theorem C17_fixed_point_text_shape : forall d,
  digits_ok (d_digits d) = true ->
  digits_ok (f_int (fmt_f d)) = true /\ digits_ok (f_frac (fmt_f d)) = true /\
  length (f_frac (fmt_f d)) = Z.to_nat (- d_exp d) /\ f_int (fmt_f d) <> [] \/ d_digits d = [].
Proof. exact fmt_f_shape. Qed.
Print Assumptions C17_fixed_point_text_shape.

(* str() would not do: it is plain only for exponent <= 0 and adjusted exponent >= -6 *)
Theorem C17_str_is_plain_iff : forall d,
  py_str_is_scientific d = false <-> (d_exp d <= 0 /\ -6 <= adjusted d)%Z.
Proof. exact py_str_plain_iff. Qed.
Print Assumptions C17_str_is_plain_iff.

Theorem C17_ms_timestamps_roundtrip : forall ts, to_ms (of_ms ts) = ts.
Proof. exact ms_roundtrip. Qed.
Print Assumptions C17_ms_timestamps_roundtrip.
Theorem C17_us_timestamps_roundtrip : forall ts, to_us (of_us ts) = ts.
Proof. exact us_roundtrip. Qed.
Print Assumptions C17_us_timestamps_roundtrip.
Theorem C17_ms_decoding_wellformed : forall ts, (0 <= snd (of_ms ts) < 1000000)%Z.
Proof. exact of_ms_wellformed. Qed.
Print Assumptions C17_ms_decoding_wellformed.

(* status / side tables regenerated from the source on every run *)
Theorem C17_order_status_table :
  forallb (fun kv => match lookup BasanaGen.Tables.binance_order_status_is_open (fst kv) with
                     | Some v => Coq.Strings.String.eqb v (snd kv) | None => false end) documented_order_status = true.
Proof. exact order_status_table_correct. Qed.
Print Assumptions C17_order_status_table.
Theorem C17_oco_status_table :
  forallb (fun kv => match lookup BasanaGen.Tables.binance_oco_status_is_open (fst kv) with
                     | Some v => Coq.Strings.String.eqb v (snd kv) | None => false end) documented_oco_status = true.
Proof. exact oco_status_table_correct. Qed.
Print Assumptions C17_oco_status_table.

Example C17_d9_witness :
  (* 8.5E-7 and 1E+3: scientific under str(), plain and exact under format(.., "f") *)
  py_str_is_scientific (mkDec false [8%nat; 5%nat] (-8)) = true /\
  py_str_is_scientific (mkDec false [1%nat] 3) = true /\
  fmt_f (mkDec false [8%nat; 5%nat] (-8)) = mkFixed false [0%nat] [0;0;0;0;0;0;8;5]%nat /\
  fmt_f (mkDec false [1%nat] 3) = mkFixed false [1;0;0;0]%nat [].
Proof. vm_compute. repeat split; reflexivity. Qed.
