from bt import *
PA, PB, PC = Pair("AAA","USD"), Pair("BBB","USD"), Pair("CCC","USD")
async def run3(mc):
    d = bs.backtesting_dispatcher(max_concurrent=mc)
    e = ex.Exchange(d, {"USD":D(100000)}, liquidity_strategy_factory=liquidity.InfiniteLiquidity)
    subs={}
    log=[]
    async def on_bar_A(be):
        now=d.now()
        if be.when==T(60):
            o = await e.create_market_order(bs.OrderOperation.BUY, PC, D(1))
            subs[o.id]=now
    e.subscribe_to_bar_events(PA, on_bar_A)
    for p in (PA,PB,PC):
        e.add_bar_source(event.FifoQueueEventSource(events=[mkbar(60*i, 100+i,100+i,100+i,100+i,1000,pair=p) for i in range(3)]))
    async def on_order(oe):
        log.append(((oe.when-T(0)).total_seconds(), oe.order.id[:4], oe.order.is_open, oe.order.amount_filled, oe.order.quote_amount_filled))
    e.subscribe_to_order_events(on_order)
    await d.run(stop_signals=[])
    for o in e._get_all_orders():
        print(mc, 'submitted at', (subs[o.id]-T(0)).total_seconds(), 'fills', [((f.when-T(0)).total_seconds(), dict(f.balance_updates)) for f in o.fills])
    print(log)
for mc in (1,2,3,4,50): asyncio.run(run3(mc))
