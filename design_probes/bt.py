import asyncio, datetime, itertools, logging
from decimal import Decimal as D
import basana as bs
from basana.core import event, bar
from basana.backtesting import exchange as ex, fees, liquidity, lending, errors
from basana.core.pair import Pair, PairInfo

UTC = datetime.timezone.utc
def T(s): return datetime.datetime(2020,1,1,tzinfo=UTC)+datetime.timedelta(seconds=s)
P = Pair("BTC","USD")

def mkbar(t, o,h,l,c,v, pair=P, dur=60):
    return bar.BarEvent(T(t+dur), bar.Bar(T(t), pair, D(str(o)),D(str(h)),D(str(l)),D(str(c)),D(str(v))))

class Script:
    """handlers keyed by bar index"""
    def __init__(self): self.actions={}
    def at(self, i, coro_fn): self.actions.setdefault(i,[]).append(coro_fn)

async def run(bars, script, balances, mc=50, symprec={'BTC':0,'USD':2}, **exkw):
    d = bs.backtesting_dispatcher(max_concurrent=mc)
    e = ex.Exchange(d, balances, **exkw)
    for sym,pr in symprec.items(): e.set_symbol_precision(sym,pr)
    src = event.FifoQueueEventSource(events=bars)
    e.add_bar_source(src)
    log=[]
    idx={'i':0}
    async def on_bar(be):
        i=idx['i']; idx['i']+=1
        for fn in script.actions.get(i,[]):
            try:
                r = await fn(e)
                log.append(('ok', i, r))
            except Exception as x:
                log.append(('err', i, type(x).__name__, str(x)))
        log.append(('bal', i, {k:(v.available,v.hold,v.borrowed) for k,v in (await e.get_balances()).items()}))
    e.subscribe_to_bar_events(P, on_bar)
    async def on_order(oe):
        o=oe.order
        log.append(('oe', (oe.when-T(0)).total_seconds(), o.id[:4], o.is_open, o.amount_filled, o.quote_amount_filled, dict(o.fees)))
    e.subscribe_to_order_events(on_order)
    await d.run(stop_signals=[])
    log.append(('final', {k:(v.available,v.hold,v.borrowed) for k,v in (await e.get_balances()).items()}))
    log.append(('orders', [(o.id[:4], o.is_open, o.amount, o.amount_filled, o.quote_amount_filled, dict(o.fees)) for o in await e.get_orders()]))
    return log, e
