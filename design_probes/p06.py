from bt import *
from basana.backtesting.lending import MarginLoans, MarginLoanConditions
def cond(mr="0.5"):
    return MarginLoanConditions(interest_symbol="USD", interest_percentage=D("10"), interest_period=datetime.timedelta(days=365), min_interest=D("0"), margin_requirement=D(mr))
# C06: account w/ 1000 USD; short-sell BTC via auto_borrow at price 100: sell 15 BTC (value 1500; margin req 0.5 => need equity>= 750).
# Then place limit buy order (hold USD), price jumps so margin level < 100, cancel the order -> release hold fails?
s=Script()
s.at(0, lambda e: e.create_market_order(bs.OrderOperation.SELL, P, D(15), auto_borrow=True))
s.at(1, lambda e: e.create_limit_order(bs.OrderOperation.BUY, P, D(1), D("50")))
async def cancel_first_open(e):
    oo = await e.get_open_orders()
    return await e.cancel_order(oo[0].id)
s.at(2, cancel_first_open)
bars=[mkbar(0,100,100,100,100,1000), mkbar(60,100,100,100,100,1000), mkbar(120,100,400,100,400,1000), mkbar(180,400,400,400,400,1000)]
log,e=asyncio.run(run(bars,s,{"USD":D(1000)}, default_pair_info=PairInfo(0,2), lending_strategy=MarginLoans("USD", cond()), liquidity_strategy_factory=liquidity.InfiniteLiquidity))
for l in log: print(l)
print(asyncio.run(e.get_open_orders()))
