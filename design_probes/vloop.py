import asyncio, selectors, datetime, heapq
class VirtualTimeLoop(asyncio.SelectorEventLoop):
    """Event loop whose clock jumps to the next timer when nothing is ready (no real sleeping)."""
    def __init__(self, start=0.0):
        super().__init__(selectors.SelectSelector())
        self._vt = start
        self._orig_select = self._selector.select
        self._selector.select = self._vselect
    def time(self): return self._vt
    def _vselect(self, timeout=None):
        # called by _run_once with timeout until next timer; never block: jump the clock instead
        if timeout is not None and timeout > 0:
            self._vt += timeout
        return self._orig_select(0)
async def demo():
    loop=asyncio.get_running_loop()
    t0=loop.time()
    await asyncio.sleep(3600)
    done,pending = await asyncio.wait([asyncio.ensure_future(asyncio.sleep(100))], timeout=10)
    print('elapsed virtual', loop.time()-t0, len(done), len(pending))
import time
w=time.time()
loop=VirtualTimeLoop()
loop.run_until_complete(demo())
print('wall', time.time()-w)
