import datetime
from decimal import Decimal as D
from basana.core import bar
from basana.core.pair import Pair
UTC=datetime.timezone.utc
t0=datetime.datetime(2020,1,1,tzinfo=UTC)
src = bar.RealTimeTradesToBar(Pair("BTC","USD"), 60, skip_first_bar=False)
errs=[]
src.on_error=lambda e: errs.append(str(e))
def us(n): return t0+datetime.timedelta(microseconds=n)
src.push_trade(us(10), D(100), D(1))
src.push_trade(us(59_999_000), D(101), D(1))   # exactly end
src.push_trade(us(59_999_500), D(102), D(1))   # in the sub-ms tail
src.push_trade(us(60_000_000), D(103), D(1))   # next window start
begin=t0; end=t0+datetime.timedelta(seconds=60, milliseconds=-1)
for i in range(2):
    src._flush(begin,end); begin+=datetime.timedelta(seconds=60); end+=datetime.timedelta(seconds=60)
while (e:=src.pop()):
    b=e.bar; print(e.when, b.datetime, b.open,b.high,b.low,b.close,b.volume)
print(errs)
