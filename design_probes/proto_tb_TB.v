From Coq Require Import ZArith QArith List Bool.
Import ListNotations.
Open Scope Q_scope.
Record tb := { tpp : Q; period : Q; tokens : Q; last : Q }.
Definition consume (s : tb) (now : Q) : tb * Q :=
  let lapse := now - last s in
  let t1 := tokens s + lapse / period s * tpp s in
  let t2 := if Qlt_le_dec (tpp s) t1 then tpp s else t1 in
  let t3 := Qred (t2 - 1) in
  let s' := {| tpp := tpp s; period := period s; tokens := t3; last := now |} in
  if Qle_bool 0 t3 then (s', 0) else (s', Qred (- t3 / tpp s * period s)).
Fixpoint runtb (s : tb) (arr : list Q) : list Q :=
  match arr with [] => [] | a :: r => let '(s', w) := consume s a in w :: runtb s' r end.
Inductive verdict := Agree | Diverge (k : nat) (model : Q).
Fixpoint cmp (k : nat) (m e : list Q) : verdict :=
  match m, e with
  | [], [] => Agree
  | x :: m', y :: e' => if Qeq_bool x y then cmp (S k) m' e' else Diverge k x
  | x :: _, [] => Diverge k x
  | [], _ => Diverge k 0
  end.
Definition check (tp pd ini : Q) (arr expd : list Q) : verdict :=
  cmp 0 (runtb {| tpp := tp; period := pd; tokens := ini; last := 0 |} arr) expd.
