import asyncio, datetime, itertools
import basana as bs
from basana.core import event, dispatcher as dmod

UTC = datetime.timezone.utc
def T(s): return datetime.datetime(2020,1,1,tzinfo=UTC)+datetime.timedelta(seconds=s)

async def run(sched, evs, mc=2):
    d = bs.backtesting_dispatcher(max_concurrent=mc)
    src = event.FifoQueueEventSource(events=[event.Event(T(t)) for t in evs])
    trace=[]
    async def h(e): trace.append(('E', (e.when-T(0)).total_seconds(), (d.now()-T(0)).total_seconds()))
    d.subscribe(src, h)
    def mk(i,t):
        async def job(): trace.append(('J', i, t, (d.now()-T(0)).total_seconds()))
        return job
    for i,t in enumerate(sched): d.schedule(T(t), mk(i,t))
    await d.run(stop_signals=[])
    return trace

for sched in [[1,2,3],[3,2,1],[50,40,30,20,10],[20,50,10,40,30], [50, 10, 20], [10,50,20]]:
    print(sched, asyncio.run(run(sched,[5,15])))
print("---- after last event")
for sched in [[10,50,20],[10,20,50],[50,10,20], [30,20,10], [10,30,20,40]]:
    print(sched, asyncio.run(run(sched,[5])))
