from fractions import Fraction as F
import time
from basana.core import token_bucket
clock=[F(0)]
time_time=time.time
token_bucket.time.time=lambda: clock[0]
tb=token_bucket.TokenBucketLimiter(F(5), F(10), F(8))
print([tb.consume() for _ in range(10)])
tb=token_bucket.TokenBucketLimiter(F(5), F(10), F(2))
out=[]
for k in range(5): out.append(tb.consume())
clock[0]+=F(3); out.append(('t+3',tb.consume(), tb._tokens))
clock[0]+=F(100); out.append(('t+100',tb.consume(), tb._tokens))
print(out)
