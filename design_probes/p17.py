from decimal import Decimal as D
import aiohttp, yarl
from urllib.parse import urlencode
print(str(D("0.00000085")), str(D("1E+3")), str(D("100").normalize()), str(D("0.000001")), str(D("0.0000001")), format(D("8.5E-7"),'f'), format(D("1E+3"),'f'))
# FormData with Decimal / bool
for v in [D("1.5"), True, 1, "x"]:
    try:
        fd = aiohttp.FormData({"amount": v})
        print(type(v).__name__, 'FormData ok', fd._fields)
        p = fd()
        print('   payload', p._value if hasattr(p,'_value') else p)
    except Exception as e:
        print(type(v).__name__, 'FormData err', type(e).__name__, e)
# query params via yarl
for v in [D("1.5"), True, 1, "a b&c=d/e:f@g!$'()*,;~+%"]:
    try:
        u = yarl.URL("http://h/p").with_query({"k": v})
        print(type(v).__name__, 'query ok', u.raw_query_string, '| urlencode:', urlencode({"k": v}))
    except Exception as e:
        print(type(v).__name__, 'query err', type(e).__name__, e)
