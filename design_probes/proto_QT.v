From Coq Require Import ZArith QArith Qround Lia Lqa List Bool.
Import ListNotations.
Open Scope Q_scope.

(* 10^p as Q *)
Definition pow10 (p : nat) : Q := inject_Z (Z.pow 10 (Z.of_nat p)).

(* truncate toward zero to p decimals *)
Definition qtrunc (p : nat) (q : Q) : Q :=
  let s := q * pow10 p in
  let z := if Qle_bool 0 s then Qfloor s else Qceiling s in
  inject_Z z / pow10 p.

Lemma pow10_pos p : 0 < pow10 p.
Proof. unfold pow10. change 0 with (inject_Z 0). rewrite <- Zlt_Qlt. apply Z.pow_pos_nonneg; lia. Qed.

Lemma qtrunc_nonneg p q : 0 <= q -> 0 <= qtrunc p q /\ qtrunc p q <= q.
Proof.
  intros Hq. unfold qtrunc. pose proof (pow10_pos p) as Hp.
  assert (Hs : 0 <= q * pow10 p) by nra.
  destruct (Qle_bool 0 (q * pow10 p)) eqn:E.
  - pose proof (Qfloor_le (q * pow10 p)). 
    assert (0 <= inject_Z (Qfloor (q * pow10 p))).
    { change 0 with (inject_Z 0). rewrite <- Zle_Qle. 
      apply Qfloor_resp_le in Hs. exact Hs. }
    split.
    + apply Qle_shift_div_l; [exact Hp|]. nra.
    + apply Qle_shift_div_r; [exact Hp|]. nra.
  - rewrite <- Qle_bool_iff in Hs. congruence.
Qed.

Eval vm_compute in (Qred (qtrunc 2 (12345 # 1000)), Qred (qtrunc 2 (-12345 # 1000))).
Print Assumptions qtrunc_nonneg.
