import asyncio, json, aiohttp
from basana.core import websockets as cws, event
import os, sys; sys.path.insert(0, os.path.dirname(os.path.abspath(__file__)))
from vloop import VirtualTimeLoop

class FakeWS:
    def __init__(self, script):
        self.closed=False; self.sent=[]; self.q=asyncio.Queue(); self.script=script
    async def send_str(self, s): self.sent.append(json.loads(s)); LOG.append(('SENT', json.loads(s)))
    async def close(self):
        self.closed=True; await self.q.put(None)
    def __aiter__(self): return self
    async def __anext__(self):
        m=await self.q.get()
        if m is None: raise StopAsyncIteration
        if isinstance(m, Exception): raise m
        return m
class FakeConnCtx:
    def __init__(self, sess): self.sess=sess
    async def __aenter__(self):
        ws=FakeWS(None); self.sess.conns.append(ws); LOG.append(('CONNECT', asyncio.get_running_loop().time())); return ws
    async def __aexit__(self,*a):
        self.sess.conns[-1].closed=True
class FakeSession:
    def __init__(self): self.conns=[]
    def ws_connect(self, url, heartbeat=None): return FakeConnCtx(self)

class Src(cws.ChannelEventSource):
    async def push_from_message(self, message): self.push(event.Event.__new__(event.Event))
class Cli(cws.WebSocketClient):
    async def subscribe_to_channels(self, channels, ws_cli):
        await ws_cli.send_str(json.dumps({"sub": sorted(channels)}))
    async def handle_message(self, message):
        if message.get("expired"):
            self.schedule_resubscription([message["expired"]]); return True
        return False
LOG=[]
async def main():
    sess=FakeSession()
    c=Cli("ws://x", session=sess)
    c.set_channel_event_source("a", Src(c)); c.set_channel_event_source("b", Src(c))
    t=asyncio.create_task(c.main())
    await asyncio.sleep(5)
    ws=sess.conns[-1]
    await ws.q.put(aiohttp.WSMessage(aiohttp.WSMsgType.TEXT, json.dumps({"expired":"a"}), None))
    await asyncio.sleep(50)
    LOG.append(('after 50s pending', set(c._pending_subscriptions)))
    c.set_channel_event_source("c", Src(c))
    await asyncio.sleep(5)
    t.cancel()
    for l in LOG: print(l)
loop=VirtualTimeLoop(); 
try: loop.run_until_complete(main())
except asyncio.CancelledError: pass
