import asyncio, datetime, random, sys, collections
from decimal import Decimal as D
import basana as bs
from basana.core import event, bar
from basana.backtesting import exchange as ex, fees, liquidity, lending, errors
from basana.backtesting.lending import MarginLoans, MarginLoanConditions
from basana.core.pair import Pair, PairInfo
from basana.core import helpers
UTC=datetime.timezone.utc
def T(s): return datetime.datetime(2020,1,1,tzinfo=UTC)+datetime.timedelta(seconds=s)
P=Pair("BTC","USD")
VIOL=collections.Counter(); EX={}
def viol(k, info):
    VIOL[k]+=1
    if k not in EX: EX[k]=info
async def one(seed):
    r=random.Random(seed)
    bp=r.choice([0,1,2,4,8]); qp=r.choice([0,2,4])
    fee = r.choice([fees.NoFee(), fees.Percentage(D(r.choice(["0.1","0.25","1","0"]))), fees.Percentage(D("0.5"), min_fee=D(r.choice(["0.01","1","0.005"])))])
    liqf = r.choice([liquidity.InfiniteLiquidity, lambda: liquidity.VolumeShareImpact(D(r.choice(["25","50","100"])), D(r.choice(["0","10"])))])
    margin = r.random()<0.4
    lend = MarginLoans("USD", MarginLoanConditions("USD", D("10"), datetime.timedelta(days=1), D(r.choice(["0","0.01"])), D(r.choice(["0.5","1"])))) if margin else lending.NoLoans()
    d=bs.backtesting_dispatcher()
    init={"USD":D(r.choice([0,100,1000,100000])), "BTC":D(r.choice([0,1,10]))}
    e=ex.Exchange(d, dict(init), liquidity_strategy_factory=liqf, fee_strategy=fee, lending_strategy=lend, default_pair_info=PairInfo(bp,qp))
    e.set_symbol_precision("BTC",bp); e.set_symbol_precision("USD",qp)
    tick=D(1).scaleb(-qp); bt=D(1).scaleb(-bp)
    n=r.randint(5,40); bars=[]; px=D(100)
    for i in range(n):
        o=px+tick*r.randint(-3,3)*r.choice([1,10])
        o=max(o,tick)
        hi=o+tick*r.randint(0,3)*r.choice([1,10]); lo=max(tick,o-tick*r.randint(0,3)*r.choice([1,10]))
        c=r.choice([o,hi,lo]); px=c
        vol=D(r.choice([0,1,3,10,7,100]))*r.choice([bt,1,D("0.3")])
        bars.append(bar.BarEvent(T(60*(i+1)), bar.Bar(T(60*i),P,o,hi,lo,c,vol)))
    src=event.FifoQueueEventSource(events=list(bars)); e.add_bar_source(src)
    filled_in_bar=collections.defaultdict(D); prev={}; lastbar={}
    async def check(tag):
        bals=await e.get_balances(); orders=await e.get_orders(); loans=await e.get_loans()
        # C02
        for s,b in bals.items():
            if b.available<0 or b.hold<0 or b.borrowed<0: viol('C02neg',(seed,tag,s,b))
            if b.borrowed!=sum((l.borrowed_amount for l in loans if l.is_open and l.borrowed_symbol==s),D(0)): viol('C02loan',(seed,tag))
            for v in (b.available,b.hold,b.borrowed):
                pr = bp if s=="BTC" else qp
                if v!=helpers.truncate_decimal(v,pr): viol('C08grid',(seed,tag,s,v))
        # C01
        for s in set(list(bals)+list(init)):
            tot=bals[s].total if s in bals else D(0)
            exp=init.get(s,D(0))
            for o in orders:
                sign = 1 if o.operation==bs.OrderOperation.BUY else -1
                if s=="BTC": exp+= sign*o.amount_filled
                if s=="USD": exp+= -sign*o.quote_amount_filled
                exp-= o.fees.get(s,D(0))
            for l in loans: exp-= l.paid_interest.get(s,D(0))
            if tot!=exp: viol('C01',(seed,tag,s,tot,exp))
        # C06
        if not [o for o in orders if o.is_open]:
            for s,b in bals.items():
                if b.hold!=0: viol('C06hold_margin' if margin else 'C06hold_nomargin',(seed,tag,s,b.hold, margin))
        # C05 / C09
        for o in orders:
            p=prev.get(o.id)
            if p:
                if o.amount_filled<p.amount_filled: viol('C05mono',(seed,tag))
                if not p.is_open and (o.amount_filled!=p.amount_filled or o.is_open): viol('C05final',(seed,tag))
            if o.amount_filled>o.amount: viol('C05over',(seed,tag))
            if o.amount_filled==o.amount and o.is_open: viol('C05open',(seed,tag))
            prev[o.id]=o
            if isinstance(fee,fees.Percentage) and o.amount_filled:
                due=max(o.quote_amount_filled*fee._percentage/100, fee._min_fee)
                import decimal
                due=helpers.round_decimal(due,qp,rounding=decimal.ROUND_UP)
                if o.fees.get("USD",D(0))!=due: viol('C09',(seed,tag,o.fees,due,o.quote_amount_filled))
            elif o.fees and any(o.fees.values()) and not isinstance(fee,fees.Percentage): viol('C09nofee',(seed,))
    kinds=['mkt','lim','stp','stl','cancel','loan','repay']
    async def on_bar(be):
        i=bars.index(be)
        await check(('bar',i))
        for _ in range(r.randint(0,3)):
            k=r.choice(kinds); op=r.choice([bs.OrderOperation.BUY,bs.OrderOperation.SELL])
            amt=bt*r.randint(1,30) if r.random()<0.9 else bt*r.randint(1,30)/3
            pr=lambda: max(tick, be.bar.close+tick*r.randint(-5,5))
            ab=margin and r.random()<0.5; ar=margin and r.random()<0.5
            try:
                if k=='mkt': await e.create_market_order(op,P,amt,auto_borrow=ab,auto_repay=ar)
                elif k=='lim': await e.create_limit_order(op,P,amt,pr(),auto_borrow=ab,auto_repay=ar)
                elif k=='stp': await e.create_stop_order(op,P,amt,pr(),auto_borrow=ab,auto_repay=ar)
                elif k=='stl': await e.create_stop_limit_order(op,P,amt,pr(),pr(),auto_borrow=ab,auto_repay=ar)
                elif k=='cancel':
                    os_=await e.get_orders()
                    if os_: await e.cancel_order(r.choice(os_).id)
                elif k=='loan':
                    sy=r.choice(["USD","BTC"]); await e.create_loan(sy, (bt if sy=="BTC" else tick)*r.randint(1,2000))
                elif k=='repay':
                    ls=await e.get_loans()
                    if ls: await e.repay_loan(r.choice(ls).id)
            except (errors.Error,) as x:
                if TRACE: print('   ERR', i, k, type(x).__name__, str(x)[:80])
            await check(('call',i,k))
    e.subscribe_to_bar_events(P,on_bar)
    async def on_order(oe): pass
    e.subscribe_to_order_events(on_order)
    await d.run(stop_signals=[])
    await check(('end',))
import logging; logging.disable(logging.CRITICAL)
TRACE=len(sys.argv)>2
N=int(sys.argv[1])
for s in ([int(sys.argv[2])] if TRACE else range(N)):
    try: asyncio.run(one(s))
    except Exception as x: viol('EXC:'+type(x).__name__,(s,str(x)[:100]))
print(dict(VIOL))
for k,v in EX.items(): print(k,v)
