import random, sys
from fractions import Fraction as F
sys.path.insert(0,'/repo')
from basana.core import token_bucket
def q(x):
    x=F(x); return f"({x.numerator} # {x.denominator})"
rnd=random.Random(7)
out=["Require Import TB. From Coq Require Import QArith List. Import ListNotations. Open Scope Q_scope."]
N=400
for c in range(N):
    tp=F(rnd.randint(1,40), rnd.choice([1,2,3,4])); pd=F(rnd.randint(1,30)); ini=F(rnd.randint(0,int(tp)))
    clock=[F(0)]
    token_bucket.time.time=lambda: clock[0]
    tb=token_bucket.TokenBucketLimiter(tp,pd,ini)
    arr=[];exp=[]
    for i in range(rnd.randint(1,60)):
        if rnd.random()<0.5: clock[0]+=F(rnd.randint(0,50), rnd.choice([1,2,7,10]))
        arr.append(clock[0]); w=tb.consume(); exp.append(F(w))
    if c==5: exp[-1]+=1   # planted divergence to test reporting
    out.append(f"Eval vm_compute in (check {q(tp)} {q(pd)} {q(ini)} [{';'.join(map(q,arr))}] [{';'.join(map(q,exp))}]).")
open('Cases.v','w').write("\n".join(out)+"\n")
