import asyncio, hmac, hashlib
from aiohttp import web
import aiohttp
from decimal import Decimal as D
from basana.external.binance import client as bcli
from basana.external.bitstamp import client as scli

captured=[]
async def handler(request: web.Request):
    body = await request.read()
    captured.append((request.method, request.raw_path, dict(request.headers), body))
    return web.json_response({})
async def main():
    app = web.Application(); app.router.add_route('*','/{tail:.*}', handler)
    runner = web.AppRunner(app); await runner.setup()
    site = web.TCPSite(runner,'127.0.0.1',0); await site.start()
    port = site._server.sockets[0].getsockname()[1]
    base=f"http://127.0.0.1:{port}/"
    c = bcli.APIClient("key","secret", config_overrides={"api":{"http":{"base_url":base}}})
    await c.spot_account.query_order("BTCUSDT", orig_client_order_id="a:b/c d")
    await c.spot_account.create_order("BTCUSDT","BUY","LIMIT", quantity=D("0.00000085"), price=D("1E+3"), new_client_order_id="x:y/z")
    await c.cross_margin_account.transfer_from_spot_account("BTC", D("0.00000085"))
    s = scli.APIClient("key","secret", config_overrides={"api":{"http":{"base_url":base}}})
    await s.create_limit_order("buy","btcusd", D("0.00000085"), D("1E+3"), client_order_id="a:b/c d")
    await runner.cleanup()
    for m,p,h,b in captured:
        print(m,p,b, {k:v for k,v in h.items() if k.lower().startswith('x-') or k.lower()=='content-type'})
        if 'signature=' in p:
            q=p.split('?',1)[1]
            sig=q.split('signature=')[1]
            unsigned=q.split('&signature=')[0]
            exp=hmac.new(b"secret",(unsigned+b.decode()).encode(),hashlib.sha256).hexdigest()
            print('   sig ok?', sig==exp)
asyncio.run(main())
