from bt import *
# C04: liquidity not multiple of base precision. base precision 0, volume 10 * 25% = 2.5 available. limit buy 5 @ 100.
s=Script()
s.at(0, lambda e: e.create_limit_order(bs.OrderOperation.BUY, P, D(5), D("100")))
bars=[mkbar(0,100,100,100,100,10), mkbar(60,90,95,90,95,10), mkbar(120,99,101,99,100,10), mkbar(180,99,101,99,100,10)]
log,e=asyncio.run(run(bars,s,{"USD":D(10000)}, default_pair_info=PairInfo(0,2)))
for l in log: print(l)
