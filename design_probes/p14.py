import asyncio, datetime, logging
import basana as bs
from basana.core import event, dt
async def rt():
    d = bs.realtime_dispatcher(max_concurrent=1)
    src = event.FifoQueueEventSource()
    now = dt.utc_now()
    for i in range(3): src.push(event.Event(now - datetime.timedelta(seconds=1)))
    async def h(e):
        await asyncio.sleep(0.05)
    d.subscribe(src, h)
    async def job(): await asyncio.sleep(0.05)
    for i in range(3): d.schedule(now - datetime.timedelta(seconds=1), job)
    async def stopper():
        await asyncio.sleep(1); d.stop()
    t=asyncio.create_task(stopper())
    try:
        await d.run(stop_signals=[])
        print("run returned")
    except BaseException as e:
        print("run raised", type(e), e)
    t.cancel()
asyncio.run(rt())

# logging after failing backtest
class BadProducer(event.Producer):
    async def main(self): raise RuntimeError("producer failed")
async def bt():
    d = bs.backtesting_dispatcher()
    src = event.FifoQueueEventSource(producer=BadProducer())
    async def h(e): pass
    d.subscribe(src, h)
    f0 = logging.getLogRecordFactory()
    try:
        await d.run(stop_signals=[])
    except BaseException as e:
        print("bt run raised", type(e), e)
    print("factory restored:", logging.getLogRecordFactory() is f0)
    try:
        logging.getLogger("x").warning("hello after")
        print("logging ok")
    except BaseException as e:
        print("logging raised", type(e), e)
asyncio.run(bt())
