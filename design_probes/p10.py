from bt import *
from basana.backtesting.lending import MarginLoans, MarginLoanConditions
def cond(mr="0.5"):
    return MarginLoanConditions(interest_symbol="USD", interest_percentage=D("10"), interest_period=datetime.timedelta(days=365), min_interest=D("0"), margin_requirement=D(mr))
s=Script()
s.at(0, lambda e: e.create_loan("BTC", D(1000)))
s.at(1, lambda e: e.create_loan("USD", D(1000000)))
bars=[mkbar(0,100,100,100,100,1000), mkbar(60,100,100,100,100,1000), mkbar(120,100,400,100,400,1000)]
for init in [{}, {"USD":D(0)}, {"USD":D("0.01")}]:
    log,e=asyncio.run(run(bars,s,dict(init), default_pair_info=PairInfo(0,2), lending_strategy=MarginLoans("USD", cond()), liquidity_strategy_factory=liquidity.InfiniteLiquidity))
    print(init)
    for l in log: print('  ',l)
