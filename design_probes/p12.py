import asyncio, datetime
import basana as bs
from basana.core import event
UTC=datetime.timezone.utc
def T(s): return datetime.datetime(2020,1,1,tzinfo=UTC)+datetime.timedelta(seconds=s)
def S(d): return (d-T(0)).total_seconds()
async def main():
    d=bs.backtesting_dispatcher()
    src=event.FifoQueueEventSource(events=[event.Event(T(10)), event.Event(T(20))])
    derived=event.FifoQueueEventSource()
    tr=[]
    async def h(e): tr.append(('prim', S(e.when), S(d.now())))
    async def hd(e): tr.append(('derived', S(e.when), S(d.now())))
    d.subscribe(src,h); d.subscribe(derived,hd)
    async def job():
        tr.append(('job', S(d.now()))); derived.push(event.Event(d.now()))
    async def job2(): tr.append(('job2', S(d.now())))
    d.schedule(T(13), job); d.schedule(T(16), job2)
    await d.run(stop_signals=[])
    print(tr)
asyncio.run(main())
