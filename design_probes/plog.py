import asyncio, datetime
import basana as bs
from basana.core import event, dispatcher as dm, helpers
UTC=datetime.timezone.utc
def T(s): return datetime.datetime(2020,1,1,tzinfo=UTC)+datetime.timedelta(seconds=s)
def S(d): return int((d-T(0)).total_seconds())
LOG=[]
# wrap dispatcher internals in the harness process (no repo change)
_pop=dm.EventMultiplexer.pop
def pop(self, max_dt):
    src,ev=_pop(self,max_dt)
    LOG.append(('POP', None if ev is None else (SRC[src], S(ev.when))))
    return src,ev
dm.EventMultiplexer.pop=pop
_push=helpers.TaskPool.push
async def push(self, coro):
    LOG.append(('PUSH_ENTER', len(self._tasks)))
    await _push(self, coro)
    LOG.append(('PUSH_DONE', len(self._tasks)))
helpers.TaskPool.push=push
SRC={}
async def main(mc):
    d=bs.backtesting_dispatcher(max_concurrent=mc)
    a=event.FifoQueueEventSource(events=[event.Event(T(1)),event.Event(T(2))]); b=event.FifoQueueEventSource(events=[event.Event(T(1))]); der=event.FifoQueueEventSource()
    SRC.update({der:'D',a:'A',b:'B'})
    def mk(name, susp, push_derived=False):
        async def h(e):
            LOG.append(('SEG',name,S(e.when),0,S(d.now())))
            if push_derived: der.push(event.Event(e.when))
            for i in range(susp):
                await asyncio.sleep(0); LOG.append(('SEG',name,S(e.when),i+1,S(d.now())))
        return h
    d.subscribe(der, mk('hD',0)); d.subscribe(a, mk('hA',1,True)); d.subscribe(b, mk('hB',2))
    await d.run(stop_signals=[])
for mc in (1,50):
    LOG.clear(); asyncio.run(main(mc)); print(mc, LOG)
