import decimal, random
from decimal import Decimal as D
random.seed(1)
ctx28=decimal.Context(prec=28); ctx33=decimal.Context(prec=33); big=decimal.Context(prec=200)
mm1=mm2=0; N=300000
for i in range(N):
    nd=random.randint(20,28)
    x=D(random.randint(10**(nd-1),10**nd-1)).scaleb(-nd)
    p=x**D(2)
    exact=big.multiply(x,x)
    single=ctx28.plus(exact)
    double=ctx28.plus(ctx33.plus(exact))
    if p!=single: mm1+=1
    if p!=double: mm2+=1
print('mismatch single', mm1, 'double', mm2, 'of', N)
# craft a double-rounding case: x*x = ....5 0000 49999 at digit 28..33
