import decimal, random
from decimal import Decimal as D
random.seed(1)
ctx28=decimal.Context(prec=28); big=decimal.Context(prec=200)
shown=0
for i in range(300000):
    nd=random.randint(20,28)
    x=D(random.randint(10**(nd-1),10**nd-1)).scaleb(-nd)
    p=x**D(2)
    exact=big.multiply(x,x)
    single=ctx28.plus(exact)
    if p!=single and shown<6:
        shown+=1
        print('x     ',x); print('exact ',exact); print('pow   ',p); print('single',single); print('mul   ', x*x); print()
import _pydecimal
print(decimal.__name__, decimal.Decimal.__module__, getattr(decimal,'__libmpdec_version__',None))
