from bt import *
from basana.backtesting.lending import MarginLoans, MarginLoanConditions
c = MarginLoanConditions(interest_symbol="USD", interest_percentage=D("10"), interest_period=datetime.timedelta(0), min_interest=D("0"), margin_requirement=D("0"))
s=Script()
s.at(0, lambda e: e.create_loan("ETH", D(3)))
bars=[mkbar(0,100,100,100,100,1000), mkbar(60,100,100,100,100,1000)]
log,e=asyncio.run(run(bars,s,{"USD":D(1000)}, symprec={'BTC':0,'USD':2,'ETH':2}, default_pair_info=PairInfo(0,2), lending_strategy=MarginLoans("USD", c), liquidity_strategy_factory=liquidity.InfiniteLiquidity))
for l in log: print(l)
